"""Minimal EventSolution: a node with predecessor / successor lists and meta data."""
from __future__ import annotations


class EventSolution:
    def __init__(self, is_branch=False, is_break_point=False, meta_data=None,
                 **_kwargs):
        self.is_branch = is_branch
        self.is_break_point = is_break_point
        self.meta_data = dict(meta_data) if meta_data else {}
        self.post_events: list[EventSolution] = []
        self.previous_events: list[EventSolution] = []
        self.event_id_tuple = None

    # forward links -----------------------------------------------------------------
    def add_post_event(self, post_event: "EventSolution") -> None:
        self.post_events.append(post_event)

    def add_to_post_events(self) -> None:
        """Register self as predecessor of each of its post events."""
        for post_event in self.post_events:
            post_event.add_prev_event(self)

    # backward links ----------------------------------------------------------------
    def add_prev_event(self, prev_event: "EventSolution") -> None:
        self.previous_events.append(prev_event)

    def add_to_previous_events(self) -> None:
        for prev_event in self.previous_events:
            prev_event.add_post_event(self)

    def add_to_connected_events(self) -> None:
        self.add_to_post_events()
        self.add_to_previous_events()

    @property
    def is_start(self) -> bool:
        return not self.previous_events

    @property
    def is_end(self) -> bool:
        return not self.post_events
