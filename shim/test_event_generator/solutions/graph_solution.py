"""Minimal GraphSolution: integer-keyed event nodes built from a PV job."""
from __future__ import annotations

from .event_solution import EventSolution


class GraphSolution:
    def __init__(self) -> None:
        self.start_events: dict[int, EventSolution] = {}
        self.end_events: dict[int, EventSolution] = {}
        self.events: dict[int, EventSolution] = {}
        self.event_dict_count = 0

    def add_event(self, event: EventSolution) -> None:
        self.event_dict_count += 1
        key = self.event_dict_count
        self.events[key] = event
        if event.is_start:
            self.start_events[key] = event
        if event.is_end:
            self.end_events[key] = event

    def parse_event_solutions(self, events) -> None:
        for event in events:
            self.add_event(event)

    @classmethod
    def from_event_list(cls, event_list) -> "GraphSolution":
        """One node per eventId; one edge per previousEventIds entry (str or list)."""
        # the in-memory otel2puml route hands over a one-shot generator of PV events
        event_list = list(event_list)
        nodes: dict[str, EventSolution] = {}
        order: list[str] = []
        for event in event_list:
            meta = {
                "EventType": event["eventType"],
            }
            for key, target in (("jobName", "jobName"), ("jobId", "jobId"),
                                ("applicationName", "applicationName")):
                if key in event:
                    meta[target] = event[key]
            nodes[event["eventId"]] = EventSolution(meta_data=meta)
            order.append(event["eventId"])
        for event in event_list:
            prev = event.get("previousEventIds", [])
            if isinstance(prev, str):
                prev = [prev]
            node = nodes[event["eventId"]]
            for prev_id in prev or []:
                node.add_prev_event(nodes[prev_id])
        for event_id in order:
            nodes[event_id].add_to_previous_events()
        graph = cls()
        graph.parse_event_solutions([nodes[event_id] for event_id in order])
        return graph

    # plotting helpers used only by Event.save_vis_logic_gate_tree (never by the CLI) ----
    @staticmethod
    def create_networkx_graph_from_nodes(*_a, **_k):
        raise NotImplementedError("plotting not available in the /verif stand-in")

    @staticmethod
    def get_graphviz_plot(*_a, **_k):
        raise NotImplementedError("plotting not available in the /verif stand-in")
