"""Stand-in for xtuml/janus `test_event_generator` (absent from this image).

Trusted base of /verif (DESIGN.md 2.1): only turns the PV job JSON into the adjacency
the job already spells out.  Nothing here interprets logic.
"""
