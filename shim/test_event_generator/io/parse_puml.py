class EventData:  # import-only name
    def __init__(self, *_a, **_k):
        raise NotImplementedError("janus puml parser is not available in the stand-in")


def get_unparsed_job_defs(*_a, **_k):
    raise NotImplementedError("janus puml parser is not available in the stand-in")


def parse_raw_job_def_lines(*_a, **_k):
    raise NotImplementedError("janus puml parser is not available in the stand-in")
