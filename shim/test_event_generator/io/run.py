def puml_file_to_test_events(*_a, **_k):
    raise NotImplementedError(
        "janus test-data generator is not available; /verif has its own executor")
