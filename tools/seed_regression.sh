#!/bin/sh
# tools/seed_regression.sh [ids...]   re-run every kept seeded change (seeded/<id>/patch.diff)
# against the quick check of the property it breaks; prints one line per change.
# Expected: every change whose meta.json says detected yes/after-strengthening -> exit 1.
cd "$(dirname "$0")/.."
IDS="$@"
[ -z "$IDS" ] && IDS=$(ls seeded)
for id in $IDS; do
  prop=$(/venv/bin/python -c "import json;print(json.load(open('seeded/$id/meta.json'))['breaks_property'])")
  want=$(/venv/bin/python -c "import json;print(json.load(open('seeded/$id/meta.json'))['detected_by_checks'])")
  S=/tmp/vreg-$$
  git -C /repo worktree add --detach "$S/repo" HEAD >/dev/null 2>&1 || { echo "$id worktree failed"; continue; }
  if git -C "$S/repo" apply "$PWD/seeded/$id/patch.diff" 2>/dev/null; then
    mkdir -p "$S/ev" "$S/rp"
    VERIF_REPO="$S/repo" VERIF_EVIDENCE_DIR="$S/ev" VERIF_REPLAY_DIR="$S/rp" ./check "$prop" --tier quick >"$S/out" 2>&1
    rc=$?
    echo "$id property=$prop expected=$want check_exit=$rc $(grep -E '^C[0-9]+ tier' "$S/out" | sed 's/.*violations=/violations=/' | cut -c1-40)"
  else
    echo "$id patch does not apply any more"
  fi
  git -C /repo worktree remove --force "$S/repo" >/dev/null 2>&1; rm -rf "$S"
done
