#!/usr/bin/env python3
"""Summarise an evidence file + replay dir of a (background) run."""
import json, sys, glob, collections, os
root = sys.argv[1]; prop = sys.argv[2]
e = json.load(open(f'{root}/evidence/{prop}.json'))
c = e['coverage']
print(prop, 'evals', c['evaluations'], 'distinct', c['distinct_nontrivial'], 'viol', e['violations'], 'wall', e['wall_s'])
print(' symptoms', c['violation_symptoms'])
print(' known', c.get('known_findings_hit'))
for k, v in sorted(c.get('per_stratum', {}).items()):
    print('  ', k, v)
print(' workload', c.get('workload'), 'max_steps', c.get('max_steps'), 'inconclusive', c.get('inconclusive'))
