#!/usr/bin/env python3
"""Regenerate the table of seeded changes (DESIGN.md 8.5) from seeded/*/meta.json."""
import json, os, re
HERE = os.path.dirname(os.path.dirname(os.path.abspath(__file__)))
rows = []
for d in sorted(os.listdir(os.path.join(HERE, "seeded"))):
    m = json.load(open(os.path.join(HERE, "seeded", d, "meta.json")))
    rows.append(f"| {m['id']} | {m['breaks_property']} | {m['needs_to_manifest']} | {m['detected_by_checks']} | {m['ran']} |")
table = ("| id | property | what it needs to manifest | caught | what was run / result |\n|---|---|---|---|---|\n"
         + "\n".join(rows))
p = os.path.join(HERE, "DESIGN.md")
s = open(p).read()
begin, end = "<!-- seeded-table-begin -->", "<!-- seeded-table-end -->"
if begin in s:
    s = re.sub(re.escape(begin) + ".*?" + re.escape(end), begin + "\n" + table + "\n" + end, s, flags=re.S)
else:
    s += "\n### 8.5 Seeded changes (independent sub-agents) and which checks catch them\n\n" \
         "Each change was written by a fresh sub-agent that saw only the property text and a scratch\n" \
         "worktree; I kept it only after confirming on another scratch worktree that the pinned suite\n" \
         "still gives 120 passed with it and that its demonstration fails with / passes without it\n" \
         "(`tools/eval_seed.sh`). `after-strengthening` = first missed, then caught after the check was\n" \
         "extended as described (never by special-casing the change).\n\n" + begin + "\n" + table + "\n" + end + "\n"
open(p, "w").write(s)
print(len(rows), "rows")
