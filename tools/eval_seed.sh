#!/bin/sh
# tools/eval_seed.sh <dir-with-patch.diff+demo.py> <tier> <ID>...
# Confirms a seeded change (tests still pass, demo fails with / passes without it) on a scratch
# worktree of /repo HEAD and runs the named checks against it.  Everything scratch is removed.
set -u
SRC="$1"; TIER="$2"; shift 2
S=/tmp/vseed-$$
git -C /repo worktree add --detach "$S/repo" HEAD >/dev/null 2>&1 || exit 3
cleanup() { git -C /repo worktree remove --force "$S/repo" >/dev/null 2>&1; rm -rf "$S"; }
export TQDM_DISABLE=1
run_demo() { (cd "$S" && PYTHONPATH=/verif/shim:"$S/repo" PYTHONDONTWRITEBYTECODE=1 timeout 900 /venv/bin/python "$SRC/demo.py" >"$S/demo.out" 2>&1; echo $?); }
# the demo is run where it was written (the sub-agent's own worktree, paths are baked in)
ORIG=$(dirname "$(dirname "$SRC")")
if [ -e "$ORIG/.git" ]; then
  git -C "$ORIG" checkout -- tel2puml
  run_demo_orig() { (cd "$ORIG" && PYTHONPATH=/tmp/janus_shim:"$ORIG" PYTHONDONTWRITEBYTECODE=1 timeout 1500 /venv/bin/python "$SRC/demo.py" >"$S/demo.out" 2>&1; echo $?); }
  D0=$(run_demo_orig); echo "demo without change: exit=$D0 $(tail -1 "$S/demo.out" | cut -c1-120)"
  git -C "$ORIG" apply "$SRC/patch.diff" || echo "apply failed in $ORIG"
  D1=$(run_demo_orig); echo "demo with change:    exit=$D1 $(grep -m1 -i fail "$S/demo.out" | cut -c1-160)"
  git -C "$ORIG" checkout -- tel2puml
fi
git -C "$S/repo" apply "$SRC/patch.diff" || { echo "apply failed"; cleanup; exit 3; }
T=$(cd "$S/repo" && /venv/bin/python -m pytest -q -p no:cacheprovider --timeout=900 --continue-on-collection-errors 2>&1 | tail -1)
echo "tests with change:   $T"
mkdir -p "$S/ev" "$S/rp"
for id in "$@"; do
  VERIF_REPO="$S/repo" VERIF_EVIDENCE_DIR="$S/ev" VERIF_REPLAY_DIR="$S/rp" /verif/check "$id" --tier "$TIER" >"$S/check.out" 2>&1
  rc=$?
  echo "== $id exit=$rc $(grep -E '^C[0-9]+ tier' "$S/check.out" | cut -c1-160)"
  grep -E "^(VIOLATION|INCONCLUSIVE)" "$S/check.out" | head -2 | cut -c1-200
  if [ -f "$S/ev/$id.json" ]; then /venv/bin/python -c "
import json,sys
e=json.load(open('$S/ev/$id.json'))
print('   symptoms:', e['coverage'].get('violation_symptoms')[:6])"; fi
done
cleanup
