#!/usr/bin/env python3
"""tools/keep_seed.py <id e.g. C08-m1> <src dir> <property> <caught: yes|no|after-strengthening> "<needs>" "<what was run / result>" """
import json, os, shutil, sys
sid, src, prop, caught, needs, ran = sys.argv[1:7]
dst = os.path.join(os.path.dirname(os.path.dirname(os.path.abspath(__file__))), "seeded", sid)
os.makedirs(dst, exist_ok=True)
for f in ("patch.diff", "demo.py", "notes.md"):
    if os.path.exists(os.path.join(src, f)):
        shutil.copy(os.path.join(src, f), os.path.join(dst, f))
json.dump({"id": sid, "breaks_property": prop, "needs_to_manifest": needs,
           "confirmed": "pinned suite: 120 passed with the change; demo.py exits 1 with the change and 0 without (tools/eval_seed.sh on a scratch worktree of /repo HEAD)",
           "detected_by_checks": caught, "ran": ran,
           "origin": "independent sub-agent given only the property text and a scratch worktree"},
          open(os.path.join(dst, "meta.json"), "w"), indent=1)
print("kept", dst)
