#!/bin/sh
# tools/try_patch.sh <patch-file|-R:<commit>> <tier> <ID>...   run checks against a scratch
# worktree of /repo HEAD with the patch applied (or a commit reverted); evidence and replays
# go to a scratch dir; everything is removed afterwards.
set -u
PATCH="$1"; TIER="$2"; shift 2
S=/tmp/vscratch-$$
git -C /repo worktree add --detach "$S/repo" HEAD >/dev/null 2>&1 || exit 3
case "$PATCH" in
  -R:*) git -C "$S/repo" revert --no-commit "${PATCH#-R:}" >/dev/null 2>&1 || { echo "revert failed"; git -C /repo worktree remove --force "$S/repo"; exit 3; } ;;
  *) git -C "$S/repo" apply "$PATCH" || { echo "apply failed"; git -C /repo worktree remove --force "$S/repo"; rm -rf "$S"; exit 3; } ;;
esac
mkdir -p "$S/ev" "$S/rp"
for id in "$@"; do
  VERIF_REPO="$S/repo" VERIF_EVIDENCE_DIR="$S/ev" VERIF_REPLAY_DIR="$S/rp" /verif/check "$id" --tier "$TIER" 2>&1 | grep -E "^(VIOLATION|KNOWN|INCONCLUSIVE|C[0-9]+ tier)" | cut -c1-300 | head -${TRY_LINES:-8}
  echo "== $id exit=$?"
done
git -C /repo worktree remove --force "$S/repo"
rm -rf "$S"
