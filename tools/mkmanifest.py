#!/usr/bin/env python3
"""Regenerate MANIFEST.json from the table below (keeps it schema-valid at all times)."""
import json
import os

HERE = os.path.dirname(os.path.dirname(os.path.abspath(__file__)))

BASELINE_OFF = ("cd /repo && env -u XTUML_OTEL2PUML_VERIF /venv/bin/python -m pytest -ra -q "
                "-p no:cacheprovider --timeout=900 --continue-on-collection-errors")

# id -> (technique, level text, level note, design ref)
CHECKS = {}
NOT_YET = {}


def load():
    with open(os.path.join(HERE, "tools", "checks_table.json")) as fh:
        t = json.load(fh)
    return t["checks"], t["not_applicable"]


def main():
    checks, not_app = load()
    out = {
        "version": 1,
        "setup_cmd": "cd /verif && ./setup.sh",
        "hooks": {
            "guard": "XTUML_OTEL2PUML_VERIF",
            "enable": "no source hooks: monitors are attached from /verif at run time "
                      "(sys.monitoring, icontract, SQLAlchemy listeners, uuid4/hash-seed "
                      "schedule control); checks import /repo's working tree directly via "
                      "PYTHONPATH=/verif/shim:/repo with XTUML_OTEL2PUML_VERIF=1 set",
            "baseline_off_cmd": BASELINE_OFF,
            "source_commits": [],
            "add_only": True,
        },
        "engines": [
            {"name": "puml-semantics", "path": "vlib/puml.py",
             "serves_properties": ["C01", "C02", "C03", "C04", "C05", "C14"],
             "kind_free_text": "reference frontier semantics of the diagram dialect: parser, "
                               "executor, backtracking matcher (oracle over observed outputs)"},
            {"name": "runner", "path": "vlib/core.py",
             "serves_properties": sorted(checks),
             "kind_free_text": "worker processes with controlled PYTHONHASHSEED/uuid schedule, "
                               "verdicts, evidence, known findings, replay files"},
        ],
        "checks": [],
        "not_applicable": [{"property_id": k, "reason": v} for k, v in sorted(not_app.items())],
        "notes": "Runtime monitoring: every check runs the real code of /repo's working tree "
                 "under generated workloads with independent oracles; exit 2 = inconclusive.",
    }
    for pid in sorted(checks):
        c = checks[pid]
        out["checks"].append({
            "property_id": pid,
            "quick_cmd": f"./check {pid} --tier quick",
            "thorough_cmd": f"./check {pid} --tier thorough",
            "evidence_file": f"/verif/evidence/{pid}.json",
            "replay_cmd_template": f"./check {pid} --replay {{path}}",
            "engine": c.get("engine", "runner"),
            "level_claimed": {"category": "exploration", "text": c["text"],
                              "design_ref": c["design_ref"]},
            "level_note": c["note"],
            "technique": c["technique"],
        })
    with open(os.path.join(HERE, "MANIFEST.json"), "w") as fh:
        json.dump(out, fh, indent=1)
    print("checks:", sorted(checks), "not_applicable:", sorted(not_app))


if __name__ == "__main__":
    main()
