#!/venv/bin/python
"""Exploration helper (not a registered check): run learner cases and tabulate outcomes."""
import collections, json, os, sys, time
sys.path.insert(0, os.path.dirname(os.path.dirname(os.path.abspath(__file__))))
from vlib import core, lcase, puml

def classify(r):
    if r.get("status") != "ok":
        return "harness:" + r.get("status", "?") + ":" + str(r.get("detail"))[:80]
    if not r["learn_ok"]:
        return "exception:" + r["exc_type"] + "@" + r.get("where", "?")
    j = r["judge"]
    fatal = [p for p in j["problems"] if p.get("fatal")]
    if fatal:
        return "malformed:" + fatal[0]["kind"]
    if j["missing_names"] or j["extra_names"]:
        return "names:" + ("missing" if j["missing_names"] else "") + ("extra" if j["extra_names"] else "")
    if j.get("rejected_jobs"):
        return "rejects-input"
    if j.get("extra") and not j["extra"]["ok"]:
        return "extra-language"
    if j["problems"]:
        return "style:" + j["problems"][0]["kind"]
    return "ok"

def main():
    seed = int(sys.argv[1]) if len(sys.argv) > 1 else 0
    want = json.loads(sys.argv[2]) if len(sys.argv) > 2 else {"corpus": 1, "core-exh": 10000, "core-rand": 200, "edge": 50}
    s2 = int(sys.argv[3]) if len(sys.argv) > 3 else 0
    t = time.time()
    defs = lcase.definitions("quick", seed, want)
    cases, stats = lcase.s1_cases(defs, seed, k_list=(2, 3), schedules=2)
    if s2:
        c2, st2 = lcase.s2_cases(defs, seed, per_def=s2)
        cases += c2; stats.update(st2)
    print("defs", len(defs), "cases", len(cases), stats, "build", round(time.time() - t, 1))
    results, notes = core.run_workers("vlib.lcase", "run_learn_case", cases, chunks_per_proc=4)
    print("notes", notes[:3], "results", len(results), "wall", round(time.time() - t, 1))
    table = collections.Counter(); ex = {}
    steps = []
    for r in results:
        c = cases[r["_idx"]]
        cl = classify(r)
        feat = ",".join(sorted(set(c["tags"]) & {"E1","E2","E3","multi-start","multi-event-break","S2-neq","S2-eq","corpus"})) 
        table[(c["kind"], c["stratum"], feat, cl)] += 1
        if cl != "ok":
            ex.setdefault((c["kind"], c["stratum"], feat, cl), (c, r))
        steps.append((r.get("steps", 0), r.get("n_events", 0)))
    for k, v in sorted(table.items()):
        print(v, k)
    steps.sort()
    print("max steps", steps[-3:], "ratio max", max(s / max(1, n) for s, n in steps))
    out = os.environ.get("PROBE_OUT")
    if out:
        json.dump([{"key": list(k), "case": c, "res": {kk: vv for kk, vv in r.items() if kk != "reach"}} for k, (c, r) in ex.items()], open(out, "w"), indent=1)
    core.cleanup_work()

main()
