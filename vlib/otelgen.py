"""OTel-shaped datasets, YAML configs and CLI plumbing for the end-to-end checks C14/C15.
No import from tel2puml."""
from __future__ import annotations

import json
import os
import random
import subprocess
import sys
from typing import Any

S = "resource_spans.[].scope_spans.[].spans.[]."


def field_mapping(variant: int = 0) -> dict:
    """Example 4 of json_data_converter_HOWTO.md (event_type plain name)."""
    fm = {
        "job_name": {"key_paths": ["resource_spans.[].resource.attributes.[].key"],
                     "key_value": ["service.name"],
                     "value_paths": ["value.Value.StringValue"], "value_type": "string"},
        "job_id": {"key_paths": [S + "trace_id"], "value_type": "string"},
        "event_type": {"key_paths": [S + "name"], "value_type": "string"},
        "event_id": {"key_paths": [S + "span_id"], "value_type": "string"},
        "start_timestamp": {"key_paths": [S + "start_time_unix_nano"], "value_type": "string"},
        "end_timestamp": {"key_paths": [S + "end_time_unix_nano"], "value_type": "string"},
        "application_name": {"key_paths": ["resource_spans.[].scope_spans.[].scope.name"],
                             "value_type": "string"},
        "parent_event_id": {"key_paths": [S + "parent_span_id"], "value_type": "string"},
    }
    return fm


def spans_to_documents(spans: list[dict], rng: random.Random, nfiles: int,
                       dup_rate: float = 0.0) -> list[dict]:
    """Distribute spans (dicts with the OTelEvent field names) over `nfiles` documents,
    grouped by (job_name -> resource group, application_name -> scope group); spans of one
    trace may land in different files/groups; with dup_rate some spans appear twice."""
    files: list[dict[tuple[str, str], list[dict]]] = [dict() for _ in range(nfiles)]
    for s in spans:
        targets = [rng.randrange(nfiles)]
        if rng.random() < dup_rate:
            targets.append(rng.randrange(nfiles))
        for f in targets:
            files[f].setdefault((s["job_name"], s["application_name"]), []).append(s)
    docs = []
    for groups in files:
        by_res: dict[str, dict[str, list[dict]]] = {}
        for (jn, app), ss in groups.items():
            by_res.setdefault(jn, {})[app] = ss
        rs = []
        for jn, scopes in by_res.items():
            rs.append({
                "resource": {"attributes": [
                    {"key": "service.name", "value": {"Value": {"StringValue": jn}}},
                    {"key": "service.version", "value": {"Value": {"StringValue": "1.0"}}}]},
                "scope_spans": [{
                    "scope": {"name": app},
                    "spans": [{
                        "trace_id": s["job_id"], "span_id": s["event_id"],
                        "parent_span_id": s["parent_event_id"], "name": s["event_type"],
                        "start_time_unix_nano": s["start_timestamp"] if rng.random() < 0.5
                        else str(s["start_timestamp"]),
                        "end_time_unix_nano": s["end_timestamp"],
                        "attributes": [{"key": "http.method",
                                        "value": {"Value": {"StringValue": "GET"}}}],
                    } for s in ss]} for app, ss in scopes.items()]})
        docs.append({"resource_spans": rs})
    return docs


def write_dataset(dirpath: str, docs: list[dict], per_line: bool = False) -> None:
    os.makedirs(dirpath, exist_ok=True)
    for i, d in enumerate(docs):
        with open(os.path.join(dirpath, f"otel_{i}.json"), "w") as fh:
            if per_line:
                fh.write(json.dumps(d) + "\n")
            else:
                json.dump(d, fh, indent=1)


def write_config(path: str, dirpath: str, db_uri: str, batch_size: int, time_buffer: int,
                 sequencer: dict | None = None, per_line: bool = False) -> dict:
    import yaml
    cfg: dict[str, Any] = {
        "ingest_data": {"data_source": "json", "data_holder": "sql"},
        "data_holders": {"sql": {"db_uri": db_uri, "batch_size": batch_size,
                                 "time_buffer": time_buffer}},
        "data_sources": {"json": {"dirpath": dirpath, "filepath": None,
                                  "json_per_line": per_line, "field_mapping": field_mapping()}},
    }
    if sequencer:
        cfg["sequencer"] = sequencer
    with open(path, "w") as fh:
        yaml.safe_dump(cfg, fh, sort_keys=False)
    return cfg


def cli(args: list[str], cwd: str, timeout: int = 600) -> dict:
    p = subprocess.run([sys.executable, "-m", "tel2puml"] + args, cwd=cwd, env=dict(os.environ),
                       capture_output=True, text=True, timeout=timeout)
    return {"rc": p.returncode, "out": (p.stdout or "")[-2500:], "err": (p.stderr or "")[-1200:]}


def read_saved_pv(outdir: str, inverse: dict[str, str] | None = None
                  ) -> dict[str, dict[str, dict[str, dict]]]:
    """{workflow folder: {jobId: {eventId: event}}} from <outdir>/<wf>/pv_event_sequence_n.json
    (keys renamed back with `inverse` = {custom name: PV name})."""
    res: dict[str, dict[str, dict[str, dict]]] = {}
    if not os.path.isdir(outdir):
        return res
    for wf in sorted(os.listdir(outdir)):
        d = os.path.join(outdir, wf)
        if not os.path.isdir(d):
            continue
        jobs: dict[str, dict[str, dict]] = {}
        for fn in sorted(os.listdir(d)):
            if not fn.startswith("pv_event_sequence_"):
                continue
            with open(os.path.join(d, fn)) as fh:
                evs = json.load(fh)
            for e in evs:
                if inverse:
                    e = {inverse.get(k, k): v for k, v in e.items()}
                prev = e.get("previousEventIds", [])
                if isinstance(prev, str):
                    prev = [prev]
                e["previousEventIds"] = sorted(prev)
                jobs.setdefault(e["jobId"], {})
                if e["eventId"] in jobs[e["jobId"]]:
                    e["_duplicate_event_in_files"] = True
                jobs[e["jobId"]][e["eventId"]] = e
            res.setdefault(wf, {})
        res[wf] = jobs
    return res


# ------------------------------------------------------------------------------------------
# span trees generated from block-structured definitions (C14)
# ------------------------------------------------------------------------------------------


class _Break(Exception):
    pass


class _Chooser:
    """choose(n) replays `prefix`, then takes 0 (enumeration) or a random value."""

    def __init__(self, prefix: list[int], rng: random.Random | None = None) -> None:
        self.prefix, self.rng, self.trace = prefix, rng, []

    def choose(self, n: int) -> int:
        if n <= 1:
            return 0
        pos = len(self.trace)
        c = self.prefix[pos] if pos < len(self.prefix) else (
            self.rng.randrange(n) if self.rng else 0)
        self.trace.append([c, n])
        return c


def _run(ast: list, ch: _Chooser, k: int) -> list:
    def seq(s: list, acc: list) -> list:
        for st in s:
            kind = st[0]
            if kind == "ev":
                acc.append(("ev", st[1]))
            elif kind == "xor":
                seq(st[1][ch.choose(len(st[1]))], acc)
            elif kind == "and":
                acc.append(("par", [seq(b, []) for b in st[1]]))
            elif kind == "or":
                n = len(st[1])
                mask = ch.choose(2 ** n - 1) + 1
                acc.append(("par", [seq(b, []) for i, b in enumerate(st[1]) if mask >> i & 1]))
            elif kind == "loop":
                n_iter = ch.choose(k) + 1
                for _i in range(n_iter):
                    try:
                        seq(st[1], acc)
                    except _Break:
                        break
            elif kind == "break":
                raise _Break()
            elif kind == "kill":
                raise ValueError("kill not supported in span trees")
        return acc
    return seq(ast, [])


def run_ast(ast: list, rng: random.Random, k: int = 2) -> list:
    """One random structured run of a definition (vlib.puml AST without kill): a sequence of
    items, item = ("ev", name) | ("par", [sequence, ...]).  XOR picks a branch, OR a non-empty
    subset, loops run 1..k times, break leaves the innermost loop."""
    return _run(ast, _Chooser([], rng), k)


def enumerate_runs(ast: list, k: int = 2, cap: int = 60) -> list[list] | None:
    """Every structured run (loops 1..k), de-duplicated; None above `cap`."""
    seen: dict[str, list] = {}
    prefix: list[int] | None = []
    n = 0
    while prefix is not None:
        ch = _Chooser(prefix)
        run = _run(ast, ch, k)
        seen.setdefault(json.dumps(run), run)
        n += 1
        if len(seen) > cap or n > cap * 20:
            return None
        tr = ch.trace
        while tr and tr[-1][0] + 1 >= tr[-1][1]:
            tr.pop()
        if not tr:
            prefix = None
        else:
            tr[-1][0] += 1
            prefix = [c for c, _ in tr]
    return list(seen.values())


def valid_run(run: list) -> bool:
    """Every sequence of the run (top level and parallel branches) ends with an event."""
    if not run or run[-1][0] != "ev":
        return False
    return all(valid_run(b) for it in run if it[0] == "par" for b in it[1])


def run_to_job(run: list) -> tuple:
    """The job DAG (vlib.puml job tuple) the documented async sequencing yields for the span
    tree of this run: sequential items chained, parallel branches forked from the frontier."""
    nodes: list[tuple[str, frozenset]] = []

    def seq(s: list, frontier: frozenset) -> frozenset:
        for it in s:
            if it[0] == "ev":
                nodes.append((it[1], frontier))
                frontier = frozenset((len(nodes) - 1,))
            else:
                ends = [seq(b, frontier) for b in it[1]]
                frontier = frozenset().union(*ends)
        return frontier
    seq(run, frozenset())
    return tuple(nodes)


def run_to_spans(run: list, trace_id: str, job_name: str, app: str, t0: int,
                 rng: random.Random, unit: int = 10**6) -> list[dict]:
    """Span tree whose documented sequencing reproduces the run: the last event of a sequence
    is the parent span, the preceding items are its children in start order; the branches of
    a parallel item are sibling spans with overlapping windows (sequential items never
    overlap).  Every sequence must end with an event."""
    spans: list[dict] = []
    counter = [0]

    def new_id() -> str:
        counter[0] += 1
        return f"{trace_id}-s{counter[0]}"

    def build(seq: list, parent: str | None, start: int) -> tuple[int, int]:
        """Place a sequence starting at `start`; returns (start, end) of its root span."""
        assert seq and seq[-1][0] == "ev", "sequence must end with an event"
        sid = new_id()
        cur = start + unit
        idx = len(spans)
        spans.append({})
        for item in seq[:-1]:
            if item[0] == "ev":
                cid = new_id()
                dur = unit * rng.randint(1, 3)
                spans.append({"event_id": cid, "event_type": item[1], "parent_event_id": sid,
                              "start_timestamp": cur, "end_timestamp": cur + dur})
                cur += dur + unit
            else:
                ends = []
                for bi, br in enumerate(item[1]):
                    s, e = build(br, sid, cur + bi)       # starts 1ns apart, all overlap
                    ends.append(e)
                cur = max(ends) + unit
        end = cur + unit
        spans[idx] = {"event_id": sid, "event_type": seq[-1][1], "parent_event_id": parent,
                      "start_timestamp": start, "end_timestamp": end}
        return start, end

    build(run, None, t0)
    for s in spans:
        s.update({"job_id": trace_id, "job_name": job_name, "application_name": app})
    return spans
