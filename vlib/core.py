"""Driver-side plumbing: tiers/seeds, worker processes, verdicts, evidence, known findings,
replay files.  No import of tel2puml here (workers import it)."""
from __future__ import annotations

import hashlib
import json
import os
import shutil
import subprocess
import sys
import time
from typing import Any, Callable, Iterable

VERIF = os.path.dirname(os.path.dirname(os.path.abspath(__file__)))
REPO = os.environ.get("VERIF_REPO", "/repo")
PY = os.environ.get("VERIF_PYTHON", "/venv/bin/python")
NPROC = int(os.environ.get("VERIF_NPROC", str(min(16, os.cpu_count() or 4))))
GUARD = "XTUML_OTEL2PUML_VERIF"
BREAKDOWN_TAGS = {"E1", "E1-followed", "E2", "E3", "multi-start", "multi-event-break", "S1", "S2-eq", "S2-neq",
                  "F_core", "F_edge", "corpus", "starts-with-block"}


def digest(obj: Any, n: int = 12) -> str:
    return hashlib.sha256(json.dumps(obj, sort_keys=True, default=str).encode()).hexdigest()[:n]


def work_dir() -> str:
    d = os.path.join(VERIF, ".work", str(os.getpid()))
    os.makedirs(d, exist_ok=True)
    return d


def cleanup_work() -> None:
    shutil.rmtree(os.path.join(VERIF, ".work", str(os.getpid())), ignore_errors=True)


def worker_env(hashseed: int | str = 0) -> dict:
    env = dict(os.environ)
    env.update({
        "PYTHONPATH": os.pathsep.join(
            [os.path.join(VERIF, "shim"), REPO, VERIF, os.path.join(VERIF, ".deps")]),
        "PYTHONHASHSEED": str(hashseed),
        "PYTHONDONTWRITEBYTECODE": "1",
        "TQDM_DISABLE": "1",
        GUARD: "1",
        "VERIF_REPO": REPO,
    })
    return env


def ensure_deps() -> None:
    """icontract/deal beside the repo's interpreter (offline wheelhouse)."""
    deps = os.path.join(VERIF, ".deps")
    if os.path.isdir(os.path.join(deps, "icontract")):
        return
    subprocess.run(
        [PY, "-m", "pip", "install", "--quiet", "--no-index", "--find-links",
         "/opt/veriftools/wheels", "--target", deps, "icontract", "deal"],
        check=False, stdout=subprocess.DEVNULL, stderr=subprocess.DEVNULL)


def run_workers(module: str, func: str, cases: list[dict], *, nproc: int | None = None,
                hashseeds: Iterable[int] | None = None, timeout: float = 1800.0,
                chunks_per_proc: int = 1, case_wall: int | None = None
                ) -> tuple[list[dict], list[str]]:
    """Run `module.func(case)` for every case in worker subprocesses.

    Cases are dealt round-robin to chunks; chunk i runs under PYTHONHASHSEED
    hashseeds[i % len].  Returns (results in case order (missing => None filtered), notes);
    a note is an inconclusive reason (worker died / timed out / case missing).
    """
    if not cases:
        return [], []
    nproc = nproc or NPROC
    nchunks = max(1, min(len(cases), nproc * chunks_per_proc))
    seeds = list(hashseeds) if hashseeds is not None else [0]
    wd = work_dir()
    tag = digest([module, func, time.time(), len(cases)], 8)
    chunk_files = []
    for i in range(nchunks):
        chunk = [dict(c, _idx=j) for j, c in enumerate(cases) if j % nchunks == i]
        if case_wall is not None:
            for c in chunk:
                c.setdefault("_wall_limit", case_wall)
        inp = os.path.join(wd, f"{tag}-{i}.in.json")
        outp = os.path.join(wd, f"{tag}-{i}.out.jsonl")
        with open(inp, "w") as fh:
            json.dump(chunk, fh)
        chunk_files.append((inp, outp, seeds[i % len(seeds)], len(chunk)))
    notes: list[str] = []
    results: dict[int, dict] = {}
    pending = list(enumerate(chunk_files))
    running: list[tuple[int, subprocess.Popen, float]] = []
    deadline_each = timeout
    while pending or running:
        while pending and len(running) < nproc:
            i, (inp, outp, hs, _n) = pending.pop(0)
            err = open(outp + ".err", "w")
            p = subprocess.Popen(
                [PY, "-m", "vlib.worker", module, func, inp, outp],
                cwd=VERIF, env=worker_env(hs), stdout=err, stderr=err)
            running.append((i, p, time.time()))
        time.sleep(0.05)
        still = []
        for i, p, t0 in running:
            rc = p.poll()
            if rc is None:
                if time.time() - t0 > deadline_each:
                    p.kill()
                    p.wait()
                    notes.append(f"worker chunk {i} exceeded wall-clock watchdog {timeout}s")
                else:
                    still.append((i, p, t0))
                    continue
            elif rc != 0:
                tail = ""
                try:
                    tail = open(chunk_files[i][1] + ".err").read()[-600:]
                except OSError:
                    pass
                notes.append(f"worker chunk {i} exit status {rc}: {tail!r}")
        running = still
    for inp, outp, hs, n in chunk_files:
        got = 0
        if os.path.exists(outp):
            with open(outp) as fh:
                for line in fh:
                    line = line.strip()
                    if not line:
                        continue
                    try:
                        r = json.loads(line)
                    except ValueError:
                        continue
                    r["_hashseed"] = hs
                    results[r["_idx"]] = r
                    got += 1
        if got < n:
            notes.append(f"{n - got} case(s) of a chunk produced no result")
    ordered = [results[j] for j in sorted(results)]
    return ordered, notes


# ------------------------------------------------------------------------------------------
# known findings
# ------------------------------------------------------------------------------------------


class KnownFindings:
    """known_findings.json: {"findings": [{property, id, mechanism, match: {...}}],
    "fixed": ["fixed: property=.. <commit> <what>"]}.  Read-only at run time.

    A violation record carries `tags` (structural facts about the input, computed by the
    check independently of the outcome) and `symptom`.  An entry matches iff
    entry.properties contains the property, entry.requires_tags is a subset of tags and
    the symptom is one of entry.symptoms (prefix match)."""

    def __init__(self) -> None:
        path = os.path.join(VERIF, "known_findings.json")
        self.entries: list[dict] = []
        if os.path.exists(path):
            with open(path) as fh:
                self.entries = json.load(fh).get("findings", [])
        self.hits: dict[str, int] = {}

    def match(self, prop: str, tags: Iterable[str], symptom: str) -> dict | None:
        tags = set(tags)
        for e in self.entries:
            if prop not in e["properties"]:
                continue
            if not any(set(alt) <= tags for alt in e["requires_tags_any"]):
                continue
            if not any(symptom.startswith(s) for s in e["symptoms"]):
                continue
            self.hits[e["id"]] = self.hits.get(e["id"], 0) + 1
            return e
        return None


# ------------------------------------------------------------------------------------------
# verdict / evidence
# ------------------------------------------------------------------------------------------


class Check:
    """Collects case outcomes and writes evidence + exit status for one property."""

    def __init__(self, prop: str, tier: str, seed: int, rule: str, level: str = "exploration"):
        self.prop, self.tier, self.seed, self.rule, self.level = prop, tier, seed, rule, level
        self.t0 = time.time()
        self.evaluations = 0
        self.distinct: set[str] = set()
        self.samples: list[Any] = []
        self.violations: list[dict] = []
        self.known: dict[str, dict] = {}
        self.inconclusive: list[str] = []
        self.skipped: dict[str, int] = {}
        self.extra: dict[str, Any] = {}
        self.assumptions: list[str] = []
        self.kf = KnownFindings()
        self.exhaustive = False

    # -- recording -----------------------------------------------------------------------
    def case(self, key: Any = None, nontrivial: bool = True, sample: Any = None,
             max_samples: int = 6) -> None:
        self.evaluations += 1
        if nontrivial and key is not None:
            self.distinct.add(key if isinstance(key, str) else digest(key))
        if sample is not None and len(self.samples) < max_samples:
            self.samples.append(sample)

    def skip(self, reason: str) -> None:
        self.skipped[reason] = self.skipped.get(reason, 0) + 1

    def count(self, name: str, n: int = 1) -> None:
        self.extra[name] = self.extra.get(name, 0) + n

    def violation(self, symptom: str, witness: dict, tags: Iterable[str] = ()) -> None:
        tags = sorted(set(tags))
        e = self.kf.match(self.prop, tags, symptom)
        if e is not None:
            k = self.known.setdefault(e["id"], {"entry": e, "count": 0, "example": None})
            k["count"] += 1
            if k["example"] is None:
                k["example"] = {"symptom": symptom, "tags": tags}
            return
        self.violations.append({"symptom": symptom, "tags": tags, "witness": witness})

    def note_inconclusive(self, reason: str) -> None:
        self.inconclusive.append(reason)

    # -- finish ---------------------------------------------------------------------------
    def finish(self) -> int:
        ev_dir = os.environ.get("VERIF_EVIDENCE_DIR") or os.path.join(VERIF, "evidence")
        rp_dir = os.environ.get("VERIF_REPLAY_DIR") or os.path.join(VERIF, "replays")
        os.makedirs(ev_dir, exist_ok=True)
        replay_paths = []
        if self.violations:
            os.makedirs(rp_dir, exist_ok=True)
            for v in self.violations[:5]:
                path = os.path.join(
                    rp_dir, f"{self.prop}-{digest(v['witness'])}.json")
                with open(path, "w") as fh:
                    json.dump({"property": self.prop, "symptom": v["symptom"],
                               "tags": v["tags"], "tier": self.tier, "seed": self.seed,
                               "case": v["witness"]}, fh, indent=1, default=str)
                replay_paths.append(path)
        coverage = {
            "evaluations": self.evaluations,
            "distinct_nontrivial": len(self.distinct),
            "rule": self.rule,
            "samples": self.samples,
            "skipped": self.skipped,
            "known_findings_hit": {k: v["count"] for k, v in self.known.items()},
            "inconclusive": self.inconclusive[:20],
            "violation_symptoms": sorted({v["symptom"] for v in self.violations})[:20],
        }
        if self.violations:
            br: dict[str, int] = {}
            for v in self.violations:
                feat = [t for t in v["tags"] if t in BREAKDOWN_TAGS or t.startswith("corpus:")]
                key = v["symptom"] + " | " + ",".join(feat)
                br[key] = br.get(key, 0) + 1
            coverage["violation_breakdown"] = dict(sorted(br.items(), key=lambda kv: -kv[1])[:40])
        if self.exhaustive:
            coverage["exhaustive"] = True
        coverage.update(self.extra)
        ev = {
            "property_id": self.prop,
            "tier": self.tier,
            "seed": self.seed,
            "level": self.level,
            "coverage": coverage,
            "assumptions": self.assumptions,
            "wall_s": round(time.time() - self.t0, 2),
            "violations": len(self.violations),
        }
        with open(os.path.join(ev_dir, f"{self.prop}.json"), "w") as fh:
            json.dump(ev, fh, indent=1, default=str)
        for k, v in sorted(self.known.items()):
            print(f"KNOWN-FINDING: property={self.prop} {v['entry']['id']}: "
                  f"{v['entry']['mechanism']} (x{v['count']})")
        summary = (f"{self.prop} tier={self.tier} seed={self.seed} evaluations={self.evaluations} "
                   f"distinct={len(self.distinct)} violations={len(self.violations)} "
                   f"known={sum(v['count'] for v in self.known.values())} "
                   f"skipped={sum(self.skipped.values())} wall={ev['wall_s']}s")
        print(summary)
        cleanup_work()
        if self.violations:
            for p in replay_paths:
                print(f"VIOLATION property={self.prop} replay={p}")
            return 1
        if self.inconclusive:
            for r in self.inconclusive[:5]:
                print(f"INCONCLUSIVE property={self.prop} reason={r}")
            return 2
        if self.evaluations == 0 or len(self.distinct) < 2:
            print(f"INCONCLUSIVE property={self.prop} reason=too few cases observed")
            return 2
        return 0
