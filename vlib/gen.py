"""Workload generators for the learner checks (DESIGN.md 2.4): corpus-63, fragment F
(F_core random + exhaustive-small, F_edge), structural tags, presentations."""
from __future__ import annotations

import glob
import os
import random
from typing import Any, Iterator

from . import puml

REPO = os.environ.get("VERIF_REPO", "/repo")

# ------------------------------------------------------------------------------------------
# corpus
# ------------------------------------------------------------------------------------------

CORPUS_EXCLUDED_UPSTREAM_BCNT = (
    "multiple_same_event_AND", "multiple_same_event_AND_with_extra_branch",
    "multiple_same_event_AND_with_self_loop",
)


def corpus() -> list[dict]:
    """The end-to-end .puml files without branch counts whose upstream expectation has none
    either: [{name, path, ast}] (63 expected)."""
    out = []
    root = os.path.join(REPO, "end-to-end-pumls")
    for path in sorted(glob.glob(os.path.join(root, "**", "*.puml"), recursive=True)):
        text = open(path).read()
        name = os.path.splitext(os.path.basename(path))[0]
        if "BCNT" in text or "LCNT" in text:
            continue
        if name in CORPUS_EXCLUDED_UPSTREAM_BCNT:
            continue
        ast, problems, info = puml.parse(text)
        out.append({"name": name, "path": os.path.relpath(path, root), "ast": ast,
                    "parse_problems": [dict(p) for p in problems]})
    return out


# ------------------------------------------------------------------------------------------
# structural tags (computed from the source definition only)
# ------------------------------------------------------------------------------------------


def _seq_ends_in_block(seq: list) -> bool:
    return bool(seq) and seq[-1][0] in ("and", "or", "xor", "loop")


def _contains(seq: list, kinds: tuple) -> bool:
    return puml.has_kind(seq, kinds)


def tags_of(ast: list) -> set[str]:
    tags: set[str] = set()
    if ast and ast[0][0] in ("and", "or", "xor", "loop"):
        tags.add("starts-with-block")
        if ast[0][0] in ("and", "or", "xor"):
            tags.add("multi-start")

    def walk(seq: list, loop_depth: int, fork_depth: int, top: bool) -> None:
        prev_block = False
        for i, st in enumerate(seq):
            k = st[0]
            is_block = k in ("and", "or", "xor", "loop")
            if is_block and prev_block:
                tags.add("adjacent-blocks")
            if is_block and i == 0 and not top:
                tags.add("sequence-starts-with-block")
            prev_block = is_block
            if k in ("and", "or", "xor"):
                tags.add(k)
                if loop_depth:
                    tags.add("fork-in-loop")
                if len(st[1]) > 3:
                    tags.add("more-than-3-branches")
                for b in st[1]:
                    if not b:
                        tags.add("empty-branch")
                    if b and b[-1][0] == "kill":
                        tags.add("detach")
                        if not (top and k in ("and", "or")):
                            tags.add("detach-not-in-outermost-and-or")
                    if b and b[-1][0] == "break":
                        tags.add("break")
                        n_ev = sum(1 for s in b if s[0] == "ev")
                        if len(b) - 1 != n_ev:
                            tags.add("break-branch-not-plain")
                        if n_ev > 1:
                            tags.add("multi-event-break")
                            if loop_depth > 1:
                                tags.add("multi-event-break-in-nested-loop")
                        if k != "xor":
                            tags.add("break-outside-xor")
                    walk(b, loop_depth, fork_depth + 1, False)
                if all(b and b[-1][0] == "kill" for b in st[1]):
                    tags.add("detach-on-all-branches")
            elif k == "loop":
                tags.add("loop")
                if loop_depth:
                    tags.add("nested-loop")
                body = st[1]
                if body:
                    last = body[-1]
                    if last[0] in ("and", "or"):
                        ends = {b[-1][1] if b and b[-1][0] == "ev" else None for b in last[1]}
                        followed = i + 1 < len(seq) and seq[i + 1][0] == "ev"
                        # all branches of the closing fork end in one and the same event type:
                        # a different situation for the learner (counts > 1), see same_end().
                        # The recorded finding (unterminated fork) concerns loops that are NOT
                        # followed by an event in their sequence (last statement, or only a
                        # detach behind them): 162/177 such runs fail on the unchanged tree,
                        # 0/1122 of the loops followed by an event do.
                        if not followed:
                            tags.add("E1")
                        elif len(ends) == 1 and None not in ends:
                            tags.add("E1-same-end")
                        else:
                            tags.add("E1-followed")
                    elif last[0] == "loop" and _contains(last[1], ("break",)):
                        tags.add("E2")
                    elif last[0] == "xor":
                        for b in last[1]:
                            if _seq_ends_in_block(b):
                                tags.add("E3")
                    if body[0][0] != "ev":
                        tags.add("sequence-starts-with-block")
                nbreak = _count_breaks(body)
                if nbreak > 1 and loop_depth:
                    tags.add("several-breaks-in-nested-loop")
                walk(body, loop_depth + 1, fork_depth, False)
            elif k == "break" and loop_depth == 0:
                tags.add("break-outside-loop")
    walk(ast, 0, 0, True)
    names = puml.event_names(ast)
    if len(set(names)) != len(names):
        tags.add("repeated-event-name")
    if puml.depth(ast) > 3:
        tags.add("depth>3")
    return tags


def _count_breaks(seq: list) -> int:
    n = 0
    for st in seq:
        if st[0] == "break":
            n += 1
        elif st[0] in ("and", "or", "xor"):
            n += sum(_count_breaks(b) for b in st[1])
        # breaks of nested loops belong to them
    return n


OUTSIDE_F = {"adjacent-blocks", "sequence-starts-with-block", "more-than-3-branches",
             "empty-branch", "detach-not-in-outermost-and-or", "break-branch-not-plain",
             "multi-event-break-in-nested-loop", "break-outside-xor", "detach-on-all-branches",
             "several-breaks-in-nested-loop", "break-outside-loop", "repeated-event-name",
             "depth>3"}
F_EDGE_TAGS = {"E1", "E1-followed", "E2", "E3", "multi-start", "starts-with-block",
               "multi-event-break"}


def stratum_of(tags: set[str]) -> str:
    if tags & OUTSIDE_F:
        return "outside-F"
    if tags & F_EDGE_TAGS:
        return "F_edge"
    return "F_core"


# ------------------------------------------------------------------------------------------
# random definitions of fragment F
# ------------------------------------------------------------------------------------------


class _Names:
    def __init__(self) -> None:
        self.i = 0

    def __call__(self) -> tuple:
        i = self.i
        self.i += 1
        s = ""
        while True:
            s = chr(65 + i % 26) + s
            i = i // 26 - 1
            if i < 0:
                break
        return ("ev", s)


_LIBERAL = {"on": False}


def _rand_seq(rng: random.Random, nm: _Names, depth: int, kind: str, loop_depth: int,
              edge: str | None, top: bool = False) -> list:
    """kind: top | branch | body."""
    seq: list = [nm()]
    if depth <= 0:
        if rng.random() < 0.3:
            seq.append(nm())
        return seq
    pb = {3: 0.85, 2: 0.55, 1: 0.35}.get(depth, 0.3)
    nblocks = 0
    while rng.random() < pb and nblocks < (2 if depth >= 2 else 1):
        nblocks += 1
        pb *= 0.5
    for i in range(nblocks):
        if rng.random() < 0.25:
            seq.append(nm())
        seq.append(_rand_block(rng, nm, depth, loop_depth, top and kind == "top"))
        last = i == nblocks - 1
        if not last:
            seq.append(nm())
        else:
            end_ok = True
            if kind == "body" and not _LIBERAL["on"]:
                b = seq[-1]
                if b[0] in ("and", "or"):
                    end_ok = False
                elif b[0] == "loop" and puml.has_kind(b[1], ("break",)):
                    end_ok = False
                elif b[0] == "xor" and any(_seq_ends_in_block(x) for x in b[1]):
                    end_ok = False
            if not end_ok or rng.random() < 0.6:
                seq.append(nm())
    return seq


def _rand_block(rng: random.Random, nm: _Names, depth: int, loop_depth: int, top: bool) -> tuple:
    kind = rng.choices(["and", "or", "xor", "loop"], weights=[3, 1.5, 3, 2.5])[0]
    if kind == "loop":
        body = _rand_seq(rng, nm, depth - 1, "body", loop_depth + 1, None)
        if rng.random() < 0.5:
            _insert_break_xor(rng, nm, body, nested=loop_depth > 0)
        return ("loop", body)
    nb = 2 if rng.random() < 0.7 else 3
    branches = [_rand_seq(rng, nm, depth - 1, "branch", loop_depth, None) for _ in range(nb)]
    if top and kind in ("and", "or") and loop_depth == 0 and rng.random() < 0.25:
        for b in rng.sample(branches, rng.randint(1, nb - 1)):
            b.append(("kill",))
    return (kind, branches)


def _insert_break_xor(rng: random.Random, nm: _Names, body: list, nested: bool,
                      multi_event: bool = False) -> None:
    nbreak = 1 if nested or rng.random() < 0.7 else 2
    branches = []
    for _ in range(nbreak):
        b = [nm()]
        if multi_event:
            b += [nm() for _ in range(rng.randint(1, 2))]
        b.append(("break",))
        branches.append(b)
    for _ in range(1 if rng.random() < 0.75 else 2):
        branches.append([nm()] + ([nm()] if rng.random() < 0.3 else []))
    rng.shuffle(branches)
    xor = ("xor", branches)
    # positions: after an event, never adjacent to another block
    pos = [i + 1 for i, st in enumerate(body) if st[0] == "ev"
           and (i + 1 == len(body) or body[i + 1][0] == "ev")]
    if not pos:
        return
    p = rng.choice(pos)
    body.insert(p, xor)
    if p + 1 < len(body) and body[p + 1][0] != "ev":
        body.insert(p + 1, nm())


def random_core(rng: random.Random, max_events: int = 18) -> list:
    while True:
        nm = _Names()
        ast = _rand_seq(rng, nm, rng.choice([1, 2, 2, 3, 3]), "top", 0, None, top=True)
        if len(ast) == 1 and rng.random() < 0.9:
            continue
        if nm.i > max_events:
            continue
        t = tags_of(ast)
        if stratum_of(t) != "F_core":
            continue
        return ast


EDGE_KINDS = ("E1", "E2", "E3", "multi-start", "multi-event-break")


def random_liberal(rng: random.Random, max_events: int = 16) -> tuple[list, str]:
    """Liberal reading of the grammar: any sequence (also a loop body, also the top level) may
    end in a block.  Returns a definition that carries at least one F_edge tag."""
    _LIBERAL["on"] = True
    try:
        for _ in range(5000):
            nm = _Names()
            ast = _rand_seq(rng, nm, rng.choice([2, 2, 3]), "top", 0, None, top=True)
            if nm.i > max_events:
                continue
            t = tags_of(ast)
            if t & OUTSIDE_F:
                continue
            hit = sorted(t & {"E1", "E1-followed", "E2", "E3"})
            if hit:
                return ast, hit[0]
    finally:
        _LIBERAL["on"] = False
    raise RuntimeError("could not generate liberal definition")


def random_edge(rng: random.Random, kind: str | None = None) -> tuple[list, str]:
    """A definition carrying one F_edge feature (admitted or named by the quantifier text but
    where the unchanged learner is not robust)."""
    kind = kind or rng.choice(EDGE_KINDS)
    for _ in range(1000):
        nm = _Names()
        if kind == "multi-start":
            first = _rand_block(rng, nm, 2, 0, True)
            if first[0] == "loop":
                continue
            ast = [first, nm()] + ([] if rng.random() < 0.5 else
                                   [_rand_block(rng, nm, 1, 0, False), nm()])
        elif kind == "multi-event-break":
            body = [nm(), nm()]
            _insert_break_xor(rng, nm, body, nested=False, multi_event=True)
            ast = [nm(), ("loop", body), nm()]
        else:
            pre = [nm()]
            if kind == "E1":
                tail = (rng.choice(["and", "or"]), [[nm()], [nm()] + ([nm()] if rng.random() < .3 else [])])
            elif kind == "E2":
                inner = [nm(), nm()]
                _insert_break_xor(rng, nm, inner, nested=True)
                tail = ("loop", inner)
            else:
                tail = ("xor", [[nm()], [nm(), (rng.choice(["and", "xor", "or"]), [[nm()], [nm()]])]])
            body = [nm()] + ([nm()] if rng.random() < 0.5 else []) + [tail]
            # E1: the loop is the last statement of its sequence half of the time
            ast = pre + [("loop", body)] + ([nm()] if kind != "E1" or rng.random() < 0.5 else [])
            if rng.random() < 0.3:
                ast = [nm(), ("and", [[nm()], ast[:]]) , nm()]
        t = tags_of(ast)
        if t & OUTSIDE_F:
            continue
        if kind in t or (kind == "E1" and "E1-followed" in t):
            return ast, kind
    raise RuntimeError("could not generate edge definition " + kind)


def same_end(ast: list, rng: random.Random, top_forks_only: bool = False,
             name: str = "SAME") -> list | None:
    """Beyond fragment F: give the last event of EVERY branch of one AND/OR fork the same new
    event type (an event type then follows/precedes with counts > 1 and the learner emits
    branch counts).  Used by C05 only, judged on well-formedness and names.  None when no
    fork qualifies.  top_forks_only: only forks that are not inside a branch of another fork
    (they may be inside loops) - nested ones are not robust on the unchanged tree (thorough
    sweep, definition same293)."""
    import copy
    ast = copy.deepcopy(ast)
    forks: list = []

    def walk(seq: list, fork_depth: int) -> None:
        for st in seq:
            if st[0] in ("and", "or", "xor"):
                if st[0] in ("and", "or") and all(b and b[-1][0] == "ev" for b in st[1]) \
                        and not (top_forks_only and fork_depth):
                    forks.append(st)
                for b in st[1]:
                    walk(b, fork_depth + 1)
            elif st[0] == "loop":
                walk(st[1], fork_depth)
    walk(ast, 0)
    if not forks:
        return None
    f = rng.choice(forks)
    if any(st == ("ev", name) for b in f[1] for st in b):
        return None         # this fork already carries the repeated type
    for b in f[1]:
        b[-1] = ("ev", name)
    return ast


def same_start(ast: list, rng: random.Random) -> list | None:
    """Beyond fragment F: the first event of every branch of one AND/OR fork gets the same new
    type, so the event before the fork is followed by that type with counts 1..n (different
    counts in different jobs for OR forks).  Used for the ingestion-level monitor of C03."""
    import copy
    ast = copy.deepcopy(ast)
    forks: list = []

    def walk(seq: list) -> None:
        for st in seq:
            if st[0] in ("and", "or", "xor"):
                if st[0] in ("and", "or") and all(b and b[0][0] == "ev" for b in st[1]):
                    forks.append(st)
                for b in st[1]:
                    walk(b)
            elif st[0] == "loop":
                walk(st[1])
    walk(ast)
    if not forks:
        return None
    f = rng.choice(forks)
    # all branches, or (for forks with >= 3 branches) only some of them, so that the repeated
    # type is interleaved with other follower types
    chosen = f[1] if len(f[1]) < 3 or rng.random() < 0.5 else rng.sample(f[1], 2)
    for b in chosen:
        b[0] = ("ev", "SAME0")
    return ast


def counts_twin(ast: list, rng: random.Random) -> list | None:
    """A twin of `ast` over the SAME event names in which one AND/OR fork gets an extra branch
    holding one event of the type that already opens another branch: the event before the fork
    then has the same follower TYPES as in `ast` but with counts > 1.  Used as a conversion
    that runs in the same interpreter BEFORE the plain definition (process-history
    presentation of C03): whatever the learner keeps between calls must not change the answer
    for the plain job set."""
    import copy
    ast = copy.deepcopy(ast)
    forks: list = []

    def walk(seq: list) -> None:
        for st in seq:
            if st[0] in ("and", "or", "xor"):
                if st[0] in ("and", "or") and all(b and b[0][0] == "ev" for b in st[1]):
                    forks.append(st)
                for b in st[1]:
                    walk(b)
            elif st[0] == "loop":
                walk(st[1])
    walk(ast)
    if not forks:
        return None
    f = rng.choice(forks)
    f[1].append([rng.choice(f[1])[0]])
    return ast


def random_counts_def(rng: random.Random) -> list:
    """A definition whose executions carry successor/predecessor multisets with counts > 1."""
    for _ in range(2000):
        base = random_core(rng)
        t = same_start(base, rng) if rng.random() < 0.6 else same_end(base, rng)
        if t is not None and rng.random() < 0.4:
            # a second fork gets its OWN repeated type: one type at two places of the
            # definition is not a workflow the learner's event-type graph can represent
            t = same_end(t, rng, name="SAME2") or t
        if t is not None:
            return t
    raise RuntimeError("could not generate a definition with counts")


def counts_family() -> list[list]:
    """Deterministic family beyond F: one event type on several branches of an AND/OR fork
    (first or last event of the branches), so that successor / predecessor sets carry counts
    > 1 - for OR forks different counts in different jobs over the SAME set of types.  At top
    level, inside an XOR branch and inside a loop."""
    out = []
    for kind in ("or", "and"):
        for nb in (2, 3):
            for where in ("start", "end", "only"):
                for ctx in ("top", "xor", "loop"):
                    nm = _Names()
                    first = nm()
                    if where == "only":
                        br = [[("ev", "SAME")] for _ in range(nb)]
                    elif where == "start":
                        br = [[("ev", "SAME"), nm()] for _ in range(nb)]
                    else:
                        br = [[nm(), ("ev", "SAME")] for _ in range(nb)]
                    fork = (kind, br)
                    if ctx == "top":
                        out.append([first, fork, nm()])
                    elif ctx == "xor":
                        out.append([first, ("xor", [[nm(), fork, nm()], [nm()]]), nm()])
                    else:
                        out.append([first, ("loop", [nm(), fork, nm()]), nm()])
    return out


def random_start_block(rng: random.Random) -> list:
    """Beyond fragment F: inside a loop, a fork branch that starts directly with a block (its
    leading event removed), e.g. A; repeat{ N; xor{ X,break | fork{P}{Q}; J } }; D.  Used by C07
    (loop-nesting invariants do not depend on block structure of the branches)."""
    import copy
    for _ in range(20000):
        base = random_core(rng)
        if not puml.has_kind(base, ("loop",)):
            continue
        ast = copy.deepcopy(base)
        cands: list = []

        def walk(seq: list, in_loop: bool) -> None:
            for st in seq:
                if st[0] in ("and", "or", "xor"):
                    for b in st[1]:
                        if in_loop and len(b) >= 2 and b[0][0] == "ev" and \
                                b[1][0] in ("and", "or", "xor", "loop"):
                            cands.append(b)
                        walk(b, in_loop)
                elif st[0] == "loop":
                    walk(st[1], True)
        walk(ast, False)
        if not cands:
            continue
        b = rng.choice(cands)
        del b[0]
        return ast
    raise RuntimeError("could not generate start-block definition")


def break_xor_start_block_family() -> list[list]:
    """Deterministic family (beyond F): a loop whose body holds a break XOR with a continuing
    branch that starts directly with a block, so the event before the XOR both opens the
    block and is the source of the break - over block kinds x break branches x tails."""
    out = []
    blocks = [("and", 2), ("and", 3), ("or", 2), ("or", 3), ("xor", 2), ("loop", 1)]
    for kind, nb in blocks:
        for nbreak in (1, 2):
            for tail_in_branch in (True, False):
                for tail_in_body in (True, False):
                    if not tail_in_branch and not tail_in_body and kind != "xor":
                        continue      # loop body would end in the fork (E1-like): not here
                    nm = _Names()
                    pre = [nm()]
                    head = nm()
                    if kind == "loop":
                        blk: tuple = ("loop", [nm(), nm()])
                    else:
                        blk = (kind, [[nm()] + ([nm()] if i == 0 else []) for i in range(nb)])
                    cont = [blk] + ([nm()] if tail_in_branch else [])
                    brk = [[nm(), ("break",)] for _ in range(nbreak)]
                    body = [head, ("xor", brk + [cont])] + ([nm()] if tail_in_body else [])
                    out.append(pre + [("loop", body), nm()])
    return out


def loop_start_block_family() -> list[list]:
    """Deterministic family (beyond F): a loop whose body starts directly with a fork."""
    out = []
    for kind, nb in [("xor", 2), ("xor", 3), ("and", 2), ("or", 2), ("and", 3), ("or", 3),
                     ("loop", 1), ("loop", 2)]:
        for tail in (True, False):
            for pre2 in (False, True):
                if not tail and kind in ("and", "or", "loop"):
                    continue                      # body would end in the block as well
                nm = _Names()
                pre = [nm()] + ([nm()] if pre2 else [])
                if kind == "loop":
                    # the inner loop opens the outer body (its cycle passes through the
                    # outer loop's start event)
                    inner = [nm(), nm()] if nb == 1 else [nm(), ("xor", [[nm()], [nm()]]), nm()]
                    blk: tuple = ("loop", inner)
                else:
                    blk = (kind, [[nm()] + ([nm()] if i == 0 else []) for i in range(nb)])
                out.append(pre + [("loop", [blk] + ([nm()] if tail else [])), nm()])
    return out


def loop_end_nested_fork_family() -> list[list]:
    """Deterministic family: a loop, followed by an event, whose body ends in an AND/OR fork
    one branch of which ends in (or holds) another fork."""
    out = []
    for outer in ("and", "or"):
        for inner in ("and", "or", "xor"):
            if inner == outer:
                continue
            for inner_tail in (False, True):
                for nb in (2, 3):
                    nm = _Names()
                    pre = [nm()]
                    ib = (inner, [[nm()], [nm()]])
                    br = [[nm(), ib] + ([nm()] if inner_tail else [])] + \
                        [[nm()] for _ in range(nb - 1)]
                    out.append(pre + [("loop", [nm(), (outer, br)]), nm()])
    return out


def two_break_xors_family() -> list[list]:
    """Deterministic family inside fragment F: an outermost loop whose body holds TWO separate
    break XORs (two decision points, each with plain single-event break branches), at top
    level and inside a branch of an AND / OR / XOR fork - over the number of break branches
    per XOR and whether the body goes on behind the second XOR."""
    out = []
    for ctx in ("top", "and", "or", "xor"):
        for nb1, nb2 in ((1, 1), (2, 1), (1, 2)):
            for tail in (False, True):
                nm = _Names()
                first = nm()
                body: list = [nm()]
                for nb in (nb1, nb2):
                    body.append(("xor", [[nm(), ("break",)] for _ in range(nb)] + [[nm()]]))
                    body.append(nm())
                if not tail:
                    body.pop()
                loop = ("loop", body)
                if ctx == "top":
                    out.append([first, loop, nm()])
                else:
                    out.append([first, (ctx, [[nm(), loop, nm()], [nm()]]), nm()])
    return out


def plain_break_family() -> list[list]:
    """Deterministic family (at the edge of F: the breaking branch carries no event of its own,
    `if .. then break` as in the corpus' loop_break_point): loops left plainly from one, two or
    three decision points, the last one closing the body or not, mixed with an event-carrying
    break, one plain break per nesting level - at top level and inside AND / XOR branches."""
    out = []

    def bodies() -> list:
        res = []
        # (plain breaks mixed with an event-carrying break in ONE loop are left out: on the
        # unchanged tree they come out with a `break` behind `repeat while` - 72/72 runs, the
        # same symptom as the recorded corpus finding loop_with_2_breaks_one_leads_to_other_equiv)
        for nplain, tail, with_event_break in ((1, True, False), (2, True, False), (2, False, False),
                                               (3, True, False)):
            def make(nm: "_Names", nplain=nplain, tail=tail, web=with_event_break) -> list:
                body: list = [nm()]
                for _ in range(nplain):
                    body.append(("xor", [[("break",)], [nm()]]))
                    body.append(nm())
                if web:
                    body.append(("xor", [[nm(), ("break",)], [nm()]]))
                    body.append(nm())
                if not tail:
                    body.pop()
                return body
            res.append(make)
        return res
    for ctx in ("top", "and", "xor"):
        for make in bodies():
            nm = _Names()
            first = nm()
            loop = ("loop", make(nm))
            if ctx == "top":
                out.append([first, loop, nm()])
            else:
                out.append([first, (ctx, [[nm(), loop, nm()], [nm()]]), nm()])
    # one plain break on each of two nesting levels
    for inner_tail in (True, False):
        nm = _Names()
        first = nm()
        inner = [nm(), ("xor", [[("break",)], [nm()]])] + ([nm()] if inner_tail else [])
        outer = [nm(), ("xor", [[("break",)], [nm()]]), nm(), ("loop", inner), nm()]
        out.append([first, ("loop", outer), nm()])
    return out


def bunched_family() -> list[list]:
    """Deterministic family of 'bunched' forks as in the corpus' constraints/bunched files but
    wider (beyond F: a fork branch starts directly with another fork): outer/inner operator
    pairs x 2-3 branches x inner fork in one or two branches x with/without an event behind
    the inner fork.  AND forks with two OR children are left out: C06 itself states that
    inference is not exact there."""
    out = []
    ops = ["and", "or", "xor"]
    for outer in ops:
        for inner in ops:
            if inner == outer:
                continue
            for n_outer in (2, 3):
                for n_inner in (2, 3):
                    for inner_tail in (False, True):
                        nm = _Names()
                        pre = [nm()]
                        ib = (inner, [[nm()] for _ in range(n_inner)])
                        first = [ib] + ([nm()] if inner_tail else [])
                        branches = [first] + [[nm()] for _ in range(n_outer - 1)]
                        out.append(pre + [(outer, branches), nm()])
                        if n_outer == 3 and not (outer == "and" and inner == "or"):
                            nm = _Names()
                            pre = [nm()]
                            ib1 = (inner, [[nm()] for _ in range(2)])
                            ib2 = (inner, [[nm()] for _ in range(2)])
                            out.append(pre + [(outer, [[ib1], [nm()],
                                                       [ib2] + ([nm()] if inner_tail else [])]),
                                              nm()])
    seen = set()
    res = []
    for ast in out:
        k = repr(puml.normal_form(ast))
        if k not in seen:
            seen.add(k)
            res.append(ast)
    return res


def deep_nest_family() -> list[list]:
    """Deterministic family beyond F's depth bound: forks of ONE operator nested 3, 4 and 5
    levels deep in the first branch, each level re-joining at its own event before the next
    outer level closes (the corpus' bunched_3_levels_same_AND, deeper) - with the inner fork
    opening the branch (bunched) or preceded by an event (inside F's grammar, beyond its
    depth)."""
    out = []
    for op in ("and", "xor", "or"):
        for depth in (3, 4, 5):
            if op == "or" and depth > 3:
                continue        # complete samples of nested ORs explode
            for lead in (False, True):
                nm = _Names()
                first = nm()
                block = (op, [[nm()], [nm()]])
                for _ in range(depth - 1):
                    inner_branch = ([nm()] if lead else []) + [block, nm()]
                    block = (op, [inner_branch, [nm()]])
                out.append([first, block, nm()])
    return out


def random_same_end(rng: random.Random) -> list:
    for _ in range(2000):
        if rng.random() < 0.5:
            base = random_core(rng)
        else:
            base, _k = random_edge(rng, "E1")
        t = same_end(base, rng, top_forks_only=True)
        if t is None:
            continue
        tg = tags_of(t)
        if tg & {"E1", "E2", "E3"}:
            continue            # keep the recorded F_edge findings out of this stratum
        return t
    raise RuntimeError("could not generate same-end definition")


def exhaustive_small() -> list[list]:
    """Deterministic list: every skeleton with <=2 blocks, depth <=2, built from the F_core
    grammar with minimal sequences."""
    out: list[list] = []

    def blocks(depth: int, nm_start: int) -> Iterator[tuple]:
        # yields (block, events used) using placeholder names, renamed later
        E = ("ev", "?")
        leafs = [[E]]
        if depth >= 2:
            inner = []
            for op in ("and", "or", "xor"):
                inner.append((op, [[E], [E]]))
            inner.append(("loop", [E]))
            inner.append(("loop", [E, ("xor", [[E, ("break",)], [E]]), E]))
            nested = [[E, b] for b in inner] + [[E, b, E] for b in inner]
        else:
            nested = []
        for op in ("and", "or", "xor"):
            for b1 in leafs + nested:
                yield (op, [list(b1), [E]])
            yield (op, [[E], [E], [E]])
        for body in ([E], [E, E]):
            yield ("loop", list(body))
        yield ("loop", [E, ("xor", [[E, ("break",)], [E]])])
        yield ("loop", [E, ("xor", [[E, ("break",)], [E]]), E])
        yield ("loop", [E, ("xor", [[E, ("break",)], [E, ("break",)], [E]]), E])
        if depth >= 2:
            for b in inner:
                if b[0] == "loop" and puml.has_kind(b[1], ("break",)):
                    yield ("loop", [E, b, E])
                elif b[0] in ("and", "or"):
                    yield ("loop", [E, b, E])
                else:
                    yield ("loop", [E, b, E])
                    yield ("loop", [E, b])

    def rename(ast: list) -> list:
        nm = _Names()

        def rs(seq: list) -> list:
            res = []
            for st in seq:
                if st[0] == "ev":
                    res.append(nm())
                elif st[0] in ("and", "or", "xor"):
                    res.append((st[0], [rs(b) for b in st[1]]))
                elif st[0] == "loop":
                    res.append(("loop", rs(st[1])))
                else:
                    res.append(st)
            return res
        return rs(ast)

    E = ("ev", "?")
    one = list(blocks(2, 0))
    for b in one:
        out.append(rename([E, b, E]))
        out.append(rename([E, b]))
    shallow = list(blocks(1, 0))
    for b1 in shallow:
        for b2 in shallow:
            out.append(rename([E, b1, E, b2, E]))
    res = []
    seen = set()
    for ast in out:
        t = tags_of(ast)
        if stratum_of(t) != "F_core":
            continue
        key = repr(puml.normal_form(ast))
        if key in seen:
            continue
        seen.add(key)
        res.append(ast)
    return res


# ------------------------------------------------------------------------------------------
# presentations of a job set (C03)
# ------------------------------------------------------------------------------------------


def present(jobs: list[tuple], rng: random.Random, name: str, variant: str) -> list[list[dict]]:
    """PV event lists for the job set under one presentation.
    variant in: base, job-order, event-order, fresh-ids, time-shift, dup-same-ids,
    dup-new-ids, all."""
    order = list(range(len(jobs)))
    if variant in ("job-order", "all"):
        rng.shuffle(order)
    out = []
    salt = rng.randrange(10**9) if variant in ("fresh-ids", "all") else 0
    t0 = rng.randrange(10**7) if variant in ("time-shift", "all") else 0
    for j in order:
        jid = f"job-{j}" if not salt else f"J{salt}-{(j * 7919 + salt) % 100003}"

        def id_of(i: int, jid: str = jid) -> str:
            return f"{jid}-e{i}" if not salt else f"{(i * 104729 + salt) % 1000003:x}-{jid}"
        evs = puml.job_to_pv(jobs[j], jid, name, id_of, t0 + 100 * j)
        if variant in ("event-order", "all"):
            rng.shuffle(evs)
        out.append(evs)
    if variant in ("dup-same-ids", "all") and out:
        out.append([dict(e) for e in rng.choice(out)])
    if variant in ("dup-new-ids",) and jobs:
        j = rng.randrange(len(jobs))
        out.append(puml.job_to_pv(jobs[j], "job-dup", name, None, 999))
    return out
