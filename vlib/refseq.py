"""Reference sequencer written from docs/user/sequencer_HOWTO.md (DESIGN.md 3.8), plus span
tree generators.  No import from tel2puml.

A span: dict(id, type, start, end, parent, children=[ids], app, job_id, job_name).
Config: async_flag, groups {parent_type: {child_type: group_id}},
        rename {type: (mapped_type, [child types])}.
"""
from __future__ import annotations

import itertools
import random
from typing import Any, Iterator


def apply_rename(spans: dict[str, dict], rename: dict) -> dict[str, str]:
    """Type of each span after renaming: a span whose type is listed is renamed when at
    least one child has one of the listed child types.  (Chains - a trigger type that is
    itself renamed - are not generated; see rename_chain_possible.)"""
    out = {}
    for sid, s in spans.items():
        t = s["type"]
        if t in rename:
            mapped, triggers = rename[t]
            if any(spans[c]["type"] in triggers for c in s["children"]):
                t = mapped
        out[sid] = t
    return out


def rename_chain_possible(rename: dict) -> bool:
    trig = set()
    for mapped, triggers in rename.values():
        trig |= set(triggers)
    subjects = set(rename) | {m for m, _ in rename.values()}
    return bool(trig & subjects)


def reference(spans: dict[str, dict], root: str, async_flag: bool, groups: dict,
              types: dict[str, str], strict_overlap: bool = False,
              span_level: bool = False) -> dict[str, frozenset]:
    """Predecessor set of every span.

    strict_overlap: windows touching in one instant (end == start) do NOT overlap.
    span_level: with prior-information units of several spans, a unit joins the running
    chain iff one of its spans overlaps one span of the chain (instead of comparing the
    unit's earliest start with the chain's latest end)."""
    prev: dict[str, frozenset] = {}

    def overlaps(chain: list[dict], unit: list[dict]) -> bool:
        if span_level:
            for c in chain:
                for u in unit:
                    lo, hi = max(c["start"], u["start"]), min(c["end"], u["end"])
                    if lo < hi or (lo == hi and not strict_overlap):
                        return True
            return False
        mx = max(c["end"] for c in chain)
        st = min(u["start"] for u in unit)
        return st < mx or (st == mx and not strict_overlap)

    def seq(sid: str, incoming: frozenset) -> None:
        s = spans[sid]
        kids = sorted((spans[c] for c in s["children"]), key=lambda x: x["start"])
        gmap = groups.get(types[sid], {})
        units: dict[Any, list[dict]] = {}
        for k in kids:
            key = ("g", gmap[types[k["id"]]]) if types[k["id"]] in gmap else ("s", k["id"])
            units.setdefault(key, []).append(k)
        ordered = sorted(units.values(), key=lambda u: u[0]["start"])
        if async_flag:
            merged: list[list[dict]] = []
            for u in ordered:
                if merged and overlaps(merged[-1], u):
                    merged[-1] = merged[-1] + u
                else:
                    merged.append(list(u))
            ordered = merged
        preds = incoming
        for u in ordered:
            for k in u:
                seq(k["id"], preds)
            preds = frozenset(k["id"] for k in u)
        prev[sid] = preds

    seq(root, frozenset())
    return prev


# ------------------------------------------------------------------------------------------
# generators
# ------------------------------------------------------------------------------------------


def tree_shapes(n: int) -> Iterator[tuple[int, ...]]:
    """All increasing parent arrays: parent[i] < i (node 0 is the root)."""
    for combo in itertools.product(*[range(i) for i in range(1, n)]):
        yield (-1,) + tuple(combo)


def intervals(grid: int) -> list[tuple[int, int]]:
    return [(a, b) for a in range(grid + 1) for b in range(a, grid + 1)]


GROUP_VARIANTS = ("none", "all-one", "first-two", "split")


def exhaustive_cases(n: int, grid: int) -> Iterator[dict]:
    """Every tree shape with n spans x every assignment of grid intervals to the non-root
    spans with distinct sibling starts x {sync, async} x GROUP_VARIANTS.  Span i has type
    T<i>; the root's window encloses everything."""
    ivs = intervals(grid)
    for parents in tree_shapes(n):
        sib: dict[int, list[int]] = {}
        for i, p in enumerate(parents):
            if p >= 0:
                sib.setdefault(p, []).append(i)
        for assign in itertools.product(ivs, repeat=n - 1):
            ok = True
            for p, kids in sib.items():
                starts = [assign[k - 1][0] for k in kids]
                if len(set(starts)) != len(starts):
                    ok = False
                    break
            if not ok:
                continue
            for async_flag in (False, True):
                for gv in GROUP_VARIANTS:
                    yield {"parents": parents, "iv": assign, "async": async_flag, "gv": gv}


def build_exhaustive(case: dict, scale: int = 1000, base: int = 10**18) -> tuple[dict, str, dict, dict]:
    parents, assign = case["parents"], case["iv"]
    n = len(parents)
    spans: dict[str, dict] = {}
    for i in range(n):
        if i == 0:
            st, en = -1, max([b for _, b in assign], default=0) + 1
        else:
            st, en = assign[i - 1]
        spans[f"s{i}"] = {"id": f"s{i}", "type": f"T{i}", "start": base + st * scale,
                          "end": base + en * scale,
                          "parent": None if parents[i] < 0 else f"s{parents[i]}",
                          "children": [], "app": "app", "job_id": "job", "job_name": "wf"}
    for i in range(1, n):
        spans[f"s{parents[i]}"]["children"].append(f"s{i}")
    groups: dict = {}
    gv = case["gv"]
    # group the children of every span that has >= 2 children
    for sid, s in spans.items():
        kids = s["children"]
        if len(kids) < 2 or gv == "none":
            continue
        ktypes = [spans[k]["type"] for k in kids]
        if gv == "all-one":
            groups[s["type"]] = {t: "g1" for t in ktypes}
        elif gv == "first-two":
            groups[s["type"]] = {t: "g1" for t in ktypes[:2]}
        elif gv == "split":
            groups[s["type"]] = {t: ("g1" if j % 2 == 0 else "g2") for j, t in enumerate(ktypes)}
            groups[s["type"]]["NEVER_PRESENT"] = "g3"
    return spans, "s0", groups, {}


def random_case(rng: random.Random, max_spans: int = 30) -> tuple[dict, str, bool, dict, dict, str]:
    """Random tree + config.  Returns spans, root, async, groups, rename, shape-kind."""
    kind = rng.choice(["plain", "plain", "long-overlap", "nested-windows", "deep", "wide"])
    n = rng.randint(1, max_spans)
    alphabet = [chr(65 + i) for i in range(rng.randint(2, 6))]
    parents = [-1]
    for i in range(1, n):
        if kind == "deep":
            parents.append(i - 1 if rng.random() < 0.8 else rng.randrange(i))
        elif kind == "wide":
            parents.append(0 if rng.random() < 0.7 else rng.randrange(i))
        else:
            parents.append(rng.randrange(i))
    base = rng.choice([0, 10**9, 1_700_000_000 * 10**9, 4_000_000_000 * 10**9])
    unit = rng.choice([1, 1000, 1000, 10**6])
    if rng.random() < 0.15:
        # end times in the last microsecond before a whole second (formatting must carry)
        base = rng.choice([1_723_544_132, 1_700_000_000, 59, 4_102_444_799]) * 10**9 \
            + 999_999_000 + rng.choice([0, 400, 499, 500, 501, 880, 990])
        unit = rng.choice([1, 1, 10])
    spans: dict[str, dict] = {}
    for i in range(n):
        spans[f"e{i}"] = {"id": f"e{i}", "type": rng.choice(alphabet), "start": 0, "end": 0,
                          "parent": None if parents[i] < 0 else f"e{parents[i]}",
                          "children": [], "app": rng.choice(["app1", "app2"]),
                          "job_id": "trace-1", "job_name": "wf"}
    for i in range(1, n):
        spans[f"e{parents[i]}"]["children"].append(f"e{i}")
    # windows: children inside (or not) the parent's window, distinct sibling starts
    spans["e0"]["start"], spans["e0"]["end"] = base, base + 1000 * n * unit
    order = list(range(n))
    for i in order:
        s = spans[f"e{i}"]
        kids = s["children"]
        if not kids:
            continue
        width = max(s["end"] - s["start"], len(kids) * unit * 4)
        slots = rng.sample(range(0, max(len(kids) * 6, 8)), len(kids))
        for j, (k, slot) in enumerate(zip(kids, slots)):
            st = s["start"] + (slot * width // max(len(kids) * 6, 8) // unit) * unit + 0
            if kind == "long-overlap" and j == 0:
                ln = width
            elif kind == "nested-windows":
                ln = rng.choice([unit, width // 2, width])
            else:
                ln = rng.choice([0, unit, 2 * unit, width // (len(kids) * 3) + unit,
                                 width // 3 + unit])
            spans[k]["start"], spans[k]["end"] = st, st + ln
        # enforce distinct sibling starts
        seen: set[int] = set()
        for k in kids:
            while spans[k]["start"] in seen:
                spans[k]["start"] += unit
                spans[k]["end"] += unit
            seen.add(spans[k]["start"])
    async_flag = rng.random() < 0.5
    groups: dict = {}
    if rng.random() < 0.5:
        for pt in rng.sample(alphabet, rng.randint(1, len(alphabet))):
            m = {}
            for ct in rng.sample(alphabet, rng.randint(1, len(alphabet))):
                m[ct] = rng.choice(["g1", "g2"])
            if rng.random() < 0.3:
                m["Z_ABSENT"] = "g9"
            groups[pt] = m
    rename: dict = {}
    if rng.random() < 0.4:
        subjects = rng.sample(alphabet, rng.randint(1, max(1, len(alphabet) // 2)))
        others = [a for a in alphabet if a not in subjects]
        for st in subjects:
            if not others:
                break
            rename[st] = (st + "_mapped", rng.sample(others, rng.randint(1, len(others))))
    return spans, "e0", async_flag, groups, rename, kind
