"""Gate trees, their outcome families, and evaluation of inferred pm4py ProcessTrees
(DESIGN.md 3.6).  No import from tel2puml."""
from __future__ import annotations

import itertools
from typing import Any, Iterator

OPS = ("AND", "OR", "XOR")


def set_partitions(items: list) -> Iterator[list[list]]:
    if len(items) == 1:
        yield [items]
        return
    first, rest = items[0], items[1:]
    for part in set_partitions(rest):
        for i in range(len(part)):
            yield part[:i] + [[first] + part[i]] + part[i + 1:]
        yield [[first]] + part


def gate_trees(events: list[str], depth: int, forbidden: str | None = None) -> Iterator[Any]:
    """All gate trees over exactly `events` (>=2): (op, [child,...]) with child a str leaf or
    a tree of another operator; operator nesting depth <= depth."""
    if depth < 1:
        return
    for op in OPS:
        if op == forbidden:
            continue
        for part in set_partitions(events):
            if len(part) < 2:
                continue
            options = []
            feasible = True
            for block in part:
                if len(block) == 1:
                    options.append([block[0]])
                else:
                    subs = list(gate_trees(block, depth - 1, op))
                    if not subs:
                        feasible = False
                        break
                    options.append(subs)
            if not feasible:
                continue
            for combo in itertools.product(*options):
                yield (op, sorted(combo, key=repr))


def outcomes(tree: Any) -> frozenset:
    """Family of successor sets (frozensets of event names) a gate tree produces."""
    if isinstance(tree, str):
        return frozenset([frozenset([tree])])
    op, children = tree
    fams = [outcomes(c) for c in children]
    if op == "XOR":
        return frozenset(itertools.chain.from_iterable(fams))
    if op == "AND":
        return _product(fams)
    if op == "OR":
        res: set = set()
        for r in range(1, len(fams) + 1):
            for sub in itertools.combinations(fams, r):
                res |= _product(list(sub))
        return frozenset(res)
    raise ValueError(op)


def _product(fams: list) -> frozenset:
    res = {frozenset()}
    for fam in fams:
        res = {a | b for a in res for b in fam}
    return frozenset(res)


def in_exact_class(tree: Any) -> bool:
    """OR gates join only plain events; no AND gate has two OR children."""
    if isinstance(tree, str):
        return True
    op, children = tree
    if op == "OR" and any(not isinstance(c, str) for c in children):
        return False
    if op == "AND" and sum(1 for c in children if not isinstance(c, str) and c[0] == "OR") >= 2:
        return False
    return all(in_exact_class(c) for c in children)


def tree_depth(tree: Any) -> int:
    if isinstance(tree, str):
        return 0
    return 1 + max(tree_depth(c) for c in tree[1])


def show(tree: Any) -> str:
    if isinstance(tree, str):
        return tree
    return tree[0] + "(" + ",".join(show(c) for c in tree[1]) + ")"


# ---- evaluation of an inferred pm4py ProcessTree --------------------------------------------

class UnknownOperator(Exception):
    pass


def admitted(node: Any) -> frozenset:
    """Family of sets the inferred tree admits.  tau = empty set; sequence/parallel =
    product; BRANCH = its child; OR = products over non-empty child subsets."""
    if node is None:
        return frozenset()
    op = node.operator
    if op is None:
        if node.label is None:
            return frozenset([frozenset()])
        return frozenset([frozenset([node.label])])
    val = getattr(op, "value", str(op))
    fams = [admitted(c) for c in node.children]
    if val == "X":
        return frozenset(itertools.chain.from_iterable(fams))
    if val in ("+", "->"):
        return _product(fams)
    if val == "O":
        res: set = set()
        for r in range(1, len(fams) + 1):
            for sub in itertools.combinations(fams, r):
                res |= _product(list(sub))
        return frozenset(res)
    if val == "BR":
        return _product(fams)
    raise UnknownOperator(val)


def show_pt(node: Any) -> str:
    if node is None:
        return "None"
    if node.operator is None:
        return "tau" if node.label is None else str(node.label)
    val = getattr(node.operator, "value", str(node.operator))
    return val + "(" + ",".join(show_pt(c) for c in node.children) + ")"
