"""Reference interpreter of docs/user/json_data_converter_HOWTO.md + generators of
(documents, mapping) cases for C13 (DESIGN.md 3.13).  No import from tel2puml."""
from __future__ import annotations

import json
import random
from typing import Any

ABSENT = object()
FIELDS = ["job_name", "job_id", "event_type", "event_id", "start_timestamp", "end_timestamp",
          "application_name", "parent_event_id"]
REQUIRED_STR = ["job_name", "job_id", "event_type", "event_id", "application_name"]


# ------------------------------------------------------------------------------------------
# mapping description -> documented YAML form
# ------------------------------------------------------------------------------------------
# item  = {"level": L, "sub": "a.b"}                                 plain path
#       | {"level": L, "arr": "x.attributes", "keyname": "key",      key/value lookup
#          "key_value": "http.method", "value_path": "value.Value.StringValue"}
# field = [[item, item(fallback) ...], [item ...] ...]               concat of priority lists


def key_path_of(item: dict, spine: list[str]) -> str:
    pre = spine[:item["level"]]
    if "arr" in item:
        return ".[].".join(pre + [item["arr"], item["keyname"]])
    return ".[].".join(pre + [item["sub"]])


def field_spec_of(field: list[list[dict]], spine: list[str], rng: random.Random) -> dict:
    """FieldSpec dict in one of the documented spellings."""
    any_kv = any("arr" in it for pr in field for it in pr)
    kp: list = []
    kv: list = []
    vp: list = []
    for pr in field:
        if len(pr) == 1:
            kp.append(key_path_of(pr[0], spine))
            kv.append(pr[0].get("key_value"))
            vp.append(pr[0].get("value_path"))
        else:
            kp.append([key_path_of(it, spine) for it in pr])
            kv.append([it.get("key_value") for it in pr])
            vp.append([it.get("value_path") for it in pr])
    spec: dict[str, Any] = {"key_paths": kp, "value_type": "string"}
    if any_kv or rng.random() < 0.3:
        spec["key_value"] = kv
        spec["value_paths"] = vp
    return spec


# ------------------------------------------------------------------------------------------
# reference semantics
# ------------------------------------------------------------------------------------------


class Undocumented(Exception):
    """The case leaves the documented input space (reason in args[0]): skipped and counted."""


def get(obj: Any, dotted: str) -> Any:
    cur = obj
    for k in dotted.split("."):
        if isinstance(cur, dict) and k in cur:
            cur = cur[k]
        else:
            return ABSENT      # absent / cannot be followed -> null
    return cur


def _stringify(v: Any) -> str | None:
    if v is ABSENT or v is None:
        return None
    if v is False:
        raise Undocumented("boolean false value (jq alternative operator)")
    if v is True:
        return "true"
    if isinstance(v, str):
        return v
    if isinstance(v, int):
        return str(v)
    if isinstance(v, float):
        raise Undocumented("float leaf")
    raise Undocumented("object/array leaf")


def _unfollowable(e: Any, vp: str) -> bool:
    """Following `vp` inside `e` meets a scalar or an array before the path ends."""
    cur = e
    for k in vp.split("."):
        if isinstance(cur, dict):
            if k not in cur:
                return False
            cur = cur[k]
        else:
            return cur is not None
    return False


def item_value(item: dict, ctx: list[Any], poison: bool = False) -> Any:
    """poison=True models the recorded finding KF-C13-kv-sibling: the lookup yields null as
    soon as ANY keyed element of the attribute array has a value the value path cannot be
    followed through (used only to classify a deviation, never as the oracle)."""
    base = ctx[item["level"]]
    if "arr" not in item:
        return get(base, item["sub"])
    arr = get(base, item["arr"])
    if arr is ABSENT or arr is None:
        return ABSENT
    if not isinstance(arr, list):
        raise Undocumented("attribute array is not an array")
    hits = []
    for e in arr:
        if not isinstance(e, dict):
            continue
        k = get(e, item["keyname"])
        if k is ABSENT or k is None or k is False:
            continue
        if not isinstance(k, str):
            raise Undocumented("attribute key is not a string")
        if k == item["key_value"]:
            hits.append(e)
    keys = [get(e, item["keyname"]) for e in arr if isinstance(e, dict)]
    keys = [k for k in keys if isinstance(k, str)]
    if len(keys) != len(set(keys)):
        raise Undocumented("duplicate keys in one attribute array")
    if poison and any(isinstance(e, dict) and isinstance(get(e, item["keyname"]), str)
                      and _unfollowable(e, item["value_path"]) for e in arr):
        return ABSENT
    if not hits:
        return ABSENT
    return get(hits[0], item["value_path"])


def field_value(field: list[list[dict]], ctx: list[Any], poison: bool = False) -> str | None:
    parts = []
    for pr in field:
        val = None
        for it in pr:
            val = _stringify(item_value(it, ctx, poison))
            if val is not None:
                break
        parts.append(val)
    if any(p is None for p in parts):
        return None
    return "_".join(parts)


def extract(doc: Any, fields: dict[str, list[list[dict]]], spine: list[str],
            poison: bool = False) -> list[dict]:
    """Records of one document, documented flattening: one record per element of the innermost
    array level used by any field, outer values repeated, absent values null, an empty array
    yields no record."""
    max_level = max(it["level"] for f in fields.values() for pr in f for it in pr)
    out: list[dict] = []

    def rec(level: int, ctx: list[Any]) -> None:
        if level == max_level:
            out.append({name: field_value(f, ctx, poison) for name, f in fields.items()})
            return
        arr = get(ctx[level], spine[level])
        if isinstance(arr, list):
            for e in arr:
                rec(level + 1, ctx + [e])
        elif arr is ABSENT or arr is None:
            rec(level + 1, ctx + [None])
        elif isinstance(arr, dict):
            raise Undocumented("array level holds an object")
        else:
            rec(level + 1, ctx + [None])    # scalar: cannot be iterated -> absent
    rec(0, [doc])
    return out


def to_event(record: dict) -> dict | None:
    """The span a record forms, or None when it cannot form a valid one."""
    for k in REQUIRED_STR:
        if not isinstance(record.get(k), str):
            return None
    ev = {k: record[k] for k in REQUIRED_STR}
    for k in ("start_timestamp", "end_timestamp"):
        v = record.get(k)
        if not isinstance(v, str):
            return None
        s = v.strip()
        body = s[1:] if s[:1] in "+-" else s
        if not body.isdigit() or not body.isascii():
            import re
            if body and re.fullmatch(r"[0-9_.eE+\-]+", body):
                raise Undocumented("number spelling pydantic may or may not accept")
            return None
        ev[k] = int(s)
    p = record.get("parent_event_id")
    if p is not None and not isinstance(p, str):
        return None
    ev["parent_event_id"] = p
    return ev


# ------------------------------------------------------------------------------------------
# generators
# ------------------------------------------------------------------------------------------

SEG_POOL = [["resource_spans", "scope_spans", "spans"],
            ["data.batches", "groups", "items"],
            ["r", "inner.s", "t.u.v"],
            ["resourceSpans", "scopeSpans", "spans"]]
ATTR_KEYS = ["service.name", "http.method", "http.response", "k1", "k2", "app", "peer"]
VALUE_PATHS = ["value.Value.StringValue", "value.Value.IntValue", "value.stringValue", "val"]


def gen_mapping(rng: random.Random) -> dict:
    depth = rng.choice([1, 2, 2, 3, 3, 3])
    spine = list(rng.choice(SEG_POOL)[:depth])
    inner = depth
    mp: dict[str, Any] = {"spine": spine, "fields": {}}
    leaf_names = {"job_id": "trace_id", "event_id": "span_id", "event_type": "name",
                  "start_timestamp": "start_time_unix_nano", "end_timestamp": "end_time_unix_nano",
                  "parent_event_id": "parent_span_id", "job_name": "wf", "application_name": "app"}

    def plain(level: int, name: str) -> dict:
        sub = name if rng.random() < 0.75 else rng.choice(["meta." + name, "x.y." + name])
        return {"level": level, "sub": sub}

    def kv(level: int) -> dict:
        arr = rng.choice(["attributes", "resource.attributes", "attrs"])
        vp = rng.choice(VALUE_PATHS)
        return {"level": level, "arr": arr, "keyname": rng.choice(["key", "key", "k.name"]),
                "key_value": rng.choice(ATTR_KEYS), "value_path": vp}

    def item(level: int, name: str) -> dict:
        return kv(level) if rng.random() < 0.3 else plain(level, name)

    for f in FIELDS:
        # span-level fields live at the innermost level, header-ish ones anywhere above
        if f in ("job_name", "application_name"):
            level = rng.randint(0, inner)
        elif f in ("job_id",) and rng.random() < 0.2:
            level = rng.randint(0, inner)
        else:
            level = inner
        n_concat = 1 if rng.random() < 0.7 else rng.randint(2, 3)
        field = []
        for c in range(n_concat):
            lvl = level if c == 0 or rng.random() < 0.5 else rng.randint(0, inner)
            n_pr = 1 if rng.random() < 0.7 else 2
            name = leaf_names[f] if c == 0 else rng.choice(["name", "kind", "ver", "status"])
            pr = [item(lvl, name if j == 0 else name + "_alt") for j in range(n_pr)]
            if n_pr == 2 and rng.random() < 0.4:
                pr[0] = plain(lvl, "not_here")
            field.append(pr)
        if f in ("start_timestamp", "end_timestamp"):
            field = [[plain(inner, leaf_names[f])]] if rng.random() < 0.8 else field[:1]
        mp["fields"][f] = field
    return mp


def _leaf(rng: random.Random, kind: str, hostile: bool, noise: float) -> Any:
    """noise = probability scale of absent / null / invalid leaves (0 = clean)."""
    r = rng.random()
    if kind == "time":
        t = 1_700_000_000_000_000_000 + rng.randrange(10**12) * 1001
        if r < 0.10 * noise:
            return None
        if r < 0.18 * noise:
            return ABSENT
        if r < 0.26 * noise:
            return rng.choice(["abc", "", "12x"])
        return t if rng.random() < 0.5 else str(t)
    if r < 0.12 * noise:
        return None
    if r < 0.24 * noise:
        return ABSENT
    if hostile and r < 0.24 * noise + 0.02:
        return rng.choice([True, False, 1.5, {"o": 1}, ["l"]])
    if rng.random() < 0.2:
        return rng.randrange(1000)
    base = rng.choice(["a", "b", "svc one", "GET", "x_y", "ü", "/put", "0"]) + \
        (str(rng.randrange(5)) if rng.random() < 0.5 else "")
    r2 = rng.random()
    if r2 < 0.06:
        # surrounding blanks and characters some line splitters treat as line ends: a value is
        # whatever stands at the mapped path, unchanged
        base = rng.choice([" ", "\t", "\u00a0"]) + base if rng.random() < 0.5 else \
            base + rng.choice([" ", "  ", "\u00a0"])
    elif r2 < 0.10:
        base = base[:1] + rng.choice(["\u2028", "\u2029", "\u0085", " \u2028 "]) + base[1:]
    return base


def _set(obj: dict, dotted: str, val: Any) -> None:
    if val is ABSENT:
        return
    ks = dotted.split(".")
    cur = obj
    for k in ks[:-1]:
        nxt = cur.get(k)
        if not isinstance(nxt, dict):
            nxt = {}
            cur[k] = nxt
        cur = nxt
    cur[ks[-1]] = val


def gen_doc(rng: random.Random, mp: dict, hostile: bool, noise: float = 1.0,
            big: bool = False) -> Any:
    """A document shaped after the mapping's spine, with (noise) missing keys, empty/null
    arrays, several elements per level, attribute arrays and (hostile) shape confusion."""
    spine = mp["spine"]
    items = [it for f in mp["fields"].values() for pr in f for it in pr]
    fields_time = {it["sub"] for name in ("start_timestamp", "end_timestamp")
                   for pr in mp["fields"][name] for it in pr if "sub" in it}
    wanted = {}
    for it in items:
        if "arr" in it:
            wanted.setdefault((it["level"], it["arr"]), set()).add(it["key_value"])

    def fill(level: int) -> dict:
        obj: dict[str, Any] = {}
        for it in items:
            if it["level"] != level:
                continue
            if "sub" in it:
                if it["sub"].endswith("not_here"):
                    continue
                if get(obj, it["sub"]) is ABSENT:
                    _set(obj, it["sub"], _leaf(rng, "time" if it["sub"] in fields_time else "s",
                                               hostile, noise))
            else:
                if get(obj, it["arr"]) is not ABSENT:
                    continue
                r = rng.random()
                if r < 0.08 * noise:
                    continue
                if r < 0.14 * noise:
                    _set(obj, it["arr"], [] if rng.random() < 0.6 else None)
                    continue
                keys = sorted(wanted[(level, it["arr"])])
                keys = [k for k in keys if rng.random() >= 0.15 * noise]
                rest = [k for k in ATTR_KEYS if k not in keys]
                keys += rng.sample(rest, rng.randint(0, min(3, len(rest))))
                rng.shuffle(keys)
                if hostile and keys and rng.random() < 0.06:
                    keys.append(rng.choice(keys))
                arr = []
                for k in keys:
                    e: dict[str, Any] = {}
                    for kn in sorted({i["keyname"] for i in items if "arr" in i}):
                        if rng.random() >= 0.1 * noise:
                            _set(e, kn, k)
                    for vp in sorted({i["value_path"] for i in items if "arr" in i}):
                        if rng.random() >= 0.15 * noise:
                            _set(e, vp, _leaf(rng, "s", hostile, noise))
                    if hostile and rng.random() < 0.05:
                        e["value"] = rng.choice(["scalar", 5, ["x"]])
                    if hostile and rng.random() < 0.02:
                        e = rng.choice(["str-element", 7, None])  # type: ignore[assignment]
                    arr.append(e)
                _set(obj, it["arr"], arr)
        if level < len(spine):
            r = rng.random()
            if r < 0.07 * noise:
                pass                                  # key missing
            elif r < 0.14 * noise:
                _set(obj, spine[level], [])           # empty array: no record below
            elif r < 0.18 * noise:
                _set(obj, spine[level], None)
            elif hostile and r < 0.18 * noise + 0.02:
                _set(obj, spine[level], rng.choice(["scalar", 3, {"a": {"x": 1}}]))
            else:
                n_el = rng.choice([1, 1, 2, 3])
                if big and level == len(spine) - 1:
                    n_el = rng.randint(150, 400)     # a serialised line far beyond 64 KiB
                els = [fill(level + 1) for _ in range(n_el)]
                if not big and rng.random() < 0.12:
                    # an element an exporter wrote twice in a row: two neighbouring elements
                    # whose mapped values are all equal are still two records
                    import copy
                    k = rng.randrange(len(els))
                    els.insert(k + 1, copy.deepcopy(els[k]))
                _set(obj, spine[level], els)
        return obj
    return fill(0)


def docs_tags(docs: list, mp: dict) -> set[str]:
    """Structural facts about a case, computed from the input only."""
    tags: set[str] = set()

    def walk(o: Any) -> None:
        if isinstance(o, dict):
            for v in o.values():
                walk(v)
        elif isinstance(o, list):
            if not o:
                tags.add("empty-array")
            for v in o:
                walk(v)
        elif o is None:
            tags.add("null")
    for d in docs:
        walk(d)
    if any(len(pr) > 1 for f in mp["fields"].values() for pr in f):
        tags.add("fallback")
    if any(len(f) > 1 for f in mp["fields"].values()):
        tags.add("concat")
    if any("arr" in it for f in mp["fields"].values() for pr in f for it in pr):
        tags.add("kv-lookup")
    levels = {it["level"] for f in mp["fields"].values() for pr in f for it in pr}
    if len(levels) > 1:
        tags.add("header-values")
    tags.add(f"depth{len(mp['spine'])}")
    return tags


def kv_sibling_unfollowable(docs: list, mp: dict) -> bool:
    """Does some attribute array hold an element, other than the one looked up, whose shape
    makes a mapped value path impossible to follow (scalar/array in the middle)?"""
    items = [it for f in mp["fields"].values() for pr in f for it in pr if "arr" in it]

    bad_path = _unfollowable

    found = False

    def visit(o: Any) -> None:
        nonlocal found
        if isinstance(o, dict):
            for it in items:
                arr = get(o, it["arr"])
                if isinstance(arr, list):
                    for e in arr:
                        if isinstance(e, dict) and get(e, it["keyname"]) != it["key_value"] \
                                and get(e, it["keyname"]) not in (ABSENT, None, False) \
                                and bad_path(e, it["value_path"]):
                            found = True
            for v in o.values():
                visit(v)
        elif isinstance(o, list):
            for v in o:
                visit(v)
    for d in docs:
        visit(d)
    return found


# the documentation's own example document and the four example mappings with their
# documented outputs (docs/user/json_data_converter_HOWTO.md section 4)
DOC_EXAMPLE = {
    "resource_spans": [{
        "resource": {"attributes": [
            {"key": "service.name", "value": {"Value": {"StringValue": "Test App"}}},
            {"key": "service.version", "value": {"Value": {"StringValue": "1.0"}}}]},
        "scope_spans": [{
            "scope": {"name": "Group 1"},
            "spans": [
                {"trace_id": "trace001", "span_id": "span001", "parent_span_id": None,
                 "name": "/delete", "start_time_unix_nano": 1723544132228102912,
                 "end_time_unix_nano": 1723544132228219285,
                 "attributes": [
                     {"key": "http.method", "value": {"Value": {"StringValue": "GET"}}},
                     {"key": "http.response", "value": {"Value": {"IntValue": "200"}}}]},
                {"trace_id": "trace002", "span_id": "span002", "name": "/put",
                 "start_time_unix_nano": 1723544132228102912,
                 "end_time_unix_nano": 1723544132228219285,
                 "attributes": [
                     {"key": "http.method", "value": {"Value": {"StringValue": "PUT"}}},
                     {"key": "http.response", "value": {"Value": {"IntValue": "200"}}}]}]}]}]}

_S = "resource_spans.[].scope_spans.[].spans.[]."
_EV_TYPE = {"key_paths": [_S + "name", [_S + "not_here", _S + "attributes.[].key"]],
            "key_value": [None, [None, "http.response"]],
            "value_paths": [None, [None, "value.Value.IntValue"]], "value_type": "string"}
_JOB_NAME = {"key_paths": ["resource_spans.[].resource.attributes.[].key"],
             "key_value": ["service.name"], "value_paths": ["value.Value.StringValue"],
             "value_type": "string"}


def _p(path: str) -> dict:
    return {"key_paths": [path], "value_type": "string"}


DOC_EXAMPLES = [
    ("example-1", {"job_id": _p(_S + "trace_id"), "event_id": _p(_S + "span_id")},
     [{"job_id": "trace001", "event_id": "span001"}, {"job_id": "trace002", "event_id": "span002"}]),
    ("example-2-event-type", {"event_type": _EV_TYPE},
     [{"event_type": "/delete_200"}, {"event_type": "/put_200"}]),
    ("example-3", {"job_name": _JOB_NAME, "job_id": _p(_S + "trace_id"),
                   "event_id": _p(_S + "span_id")},
     [{"job_name": "Test App", "job_id": "trace001", "event_id": "span001"},
      {"job_name": "Test App", "job_id": "trace002", "event_id": "span002"}]),
    ("example-4", {"job_name": _JOB_NAME, "job_id": _p(_S + "trace_id"), "event_type": _EV_TYPE,
                   "event_id": _p(_S + "span_id"),
                   "start_timestamp": _p(_S + "start_time_unix_nano"),
                   "end_timestamp": _p(_S + "end_time_unix_nano"),
                   "application_name": _p("resource_spans.[].scope_spans.[].scope.name"),
                   "parent_event_id": _p(_S + "parent_span_id")},
     [{"job_name": "Test App", "job_id": "trace001", "event_type": "/delete_200",
       "event_id": "span001", "start_timestamp": "1723544132228102912",
       "end_timestamp": "1723544132228219285", "application_name": "Group 1",
       "parent_event_id": None},
      {"job_name": "Test App", "job_id": "trace002", "event_type": "/put_200",
       "event_id": "span002", "start_timestamp": "1723544132228102912",
       "end_timestamp": "1723544132228219285", "application_name": "Group 1",
       "parent_event_id": None}]),
    ("section-3.2-single", {"event_type": {
        "key_paths": [_S + "attributes.[].key"], "key_value": ["http.method"],
        "value_paths": ["value.Value.StringValue"], "value_type": "string"}},
     [{"event_type": "GET"}, {"event_type": "PUT"}]),
    ("section-3.2-concat", {"event_type": {
        "key_paths": [_S + "name", _S + "attributes.[].key"], "key_value": [None, "http.response"],
        "value_paths": [None, "value.Value.IntValue"], "value_type": "string"}},
     [{"event_type": "/delete_200"}, {"event_type": "/put_200"}]),
]


def jsonable(doc: Any) -> Any:
    return json.loads(json.dumps(doc))
