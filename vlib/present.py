"""Worker-side functions of C03 (presentation independence) and C04 (saved model == one-shot
learning), DESIGN.md 3.3/3.4.  Imported in worker processes only."""
from __future__ import annotations

import json
import os
import random
import shutil
import subprocess
import sys
import tempfile
from typing import Any

from . import gen, lcase, puml

DUMMY_START = "|||START|||"


# ------------------------------------------------------------------------------------------
# ingestion-level observation: the `events` dict the learner accumulates
# ------------------------------------------------------------------------------------------


def events_fingerprint(events: dict) -> dict:
    """Canonical form of {type: Event}: per type the sorted successor / predecessor multisets
    with counts (read through the public dict interface of EventSet)."""
    out = {}
    for et in sorted(events):
        ev = events[et]
        out[et] = {
            "out": sorted(sorted((k, int(v)) for k, v in es.items()) for es in ev.event_sets),
            "in": sorted(sorted((k, int(v)) for k, v in es.items()) for es in ev.in_event_sets),
        }
    return out


def reference_fingerprint(jobs: list[tuple]) -> dict:
    """The same structure computed independently of the repository from the job DAGs
    (dummy start event in front of every job's start events, as the learner adds it)."""
    from collections import Counter
    out: dict[str, dict[str, set]] = {}

    def slot(t: str) -> dict[str, set]:
        return out.setdefault(t, {"out": set(), "in": set()})

    for job in jobs:
        succ: dict[int, list[str]] = {i: [] for i in range(len(job))}
        starts = []
        for i, (label, preds) in enumerate(job):
            for p in preds:
                succ[p].append(label)
            if not preds:
                starts.append(label)
        d = slot(DUMMY_START)
        if starts:
            d["out"].add(tuple(sorted(Counter(starts).items())))
        for i, (label, preds) in enumerate(job):
            s = slot(label)
            if succ[i]:
                s["out"].add(tuple(sorted(Counter(succ[i]).items())))
            if preds:
                s["in"].add(tuple(sorted(Counter(job[p][0] for p in preds).items())))
            else:
                s["in"].add(((DUMMY_START, 1),))
    return {t: {"out": sorted([list(x) for x in es] for es in v["out"]),
                "in": sorted([list(x) for x in es] for es in v["in"])}
            for t, v in sorted(out.items())}


def _norm_fp(fp: dict) -> dict:
    return json.loads(json.dumps(fp))


def ingest_only(pv: list[list[dict]]) -> dict:
    from tel2puml.pv_to_puml.data_ingestion import (
        update_and_create_events_from_clustered_pvevents)
    events = update_and_create_events_from_clustered_pvevents(pv, add_dummy_start=True)
    return events_fingerprint(events)


# ------------------------------------------------------------------------------------------
# C03
# ------------------------------------------------------------------------------------------


def run_present_case(case: dict) -> dict:
    """One presentation of one job set: ingestion fingerprint + learned diagram."""
    from . import learn
    rng = random.Random(case["rng_seed"])
    jobs = [puml.job_from_json(j) for j in case["jobs"]]
    name = case["name"]
    variant = case["variant"]
    gbj_dir = None
    if variant == "group-by-job":
        # the -group-by-job route: one file per event, files of different jobs interleaved;
        # the real pv_files_to_pv_streams regroups them by jobId
        from tel2puml.pv_to_puml.pv_to_puml import pv_files_to_pv_streams
        base = gen.present(jobs, rng, name, "fresh-ids")
        flat = [e for j in base for e in j]
        rng.shuffle(flat)
        gbj_dir = tempfile.mkdtemp(prefix="c03-", dir=case["work_dir"])
        files = []
        for i, e in enumerate(flat):
            fp_ = os.path.join(gbj_dir, f"ev{i:04d}.json")
            with open(fp_, "w") as fh:
                json.dump(e, fh)
            files.append(fp_)

        def regroup() -> list[list[dict]]:
            res = []
            for _n, streams in pv_files_to_pv_streams(files, name, True):
                res += [list(s) for s in streams]
            return res
        try:
            pv = regroup()
        finally:
            shutil.rmtree(gbj_dir, ignore_errors=True)
    elif variant.startswith("padded:"):
        # the same SET of job graphs as a long stream: one job (preferably one carrying
        # evidence no other job carries) occurs once, at a chosen position, the others are
        # repeated under fresh ids around it - any internal chunking of the job stream must
        # not lose a job at a chunk boundary
        pos = int(variant.split(":")[1])
        total = max(pos + 12, 140)
        full = puml.evidence_model(jobs)
        uniq = [i for i in range(len(jobs))
                if puml.evidence_model(jobs[:i] + jobs[i + 1:]) != full]
        u = rng.choice(uniq) if uniq else rng.randrange(len(jobs))
        others = [j for i, j in enumerate(jobs) if i != u] or [jobs[u]]
        pv = []
        for k in range(total):
            job = jobs[u] if k == pos else others[k % len(others)]
            pv.append(puml.job_to_pv(job, f"pad-{k}", name, None, 10 * k))
        out_extra = {"padded_unique_job": bool(uniq), "padded_jobs": total}
    elif variant == "after-conversions":
        # process history: other job sets (a twin of this definition over the same event names
        # but with counts > 1, and an unrelated job set) are converted in THIS interpreter
        # first; whatever the learner keeps between calls must not change this answer
        import sys as _sys
        prelude_done = 0
        for k, pre in enumerate(case.get("prelude", [])):
            pjobs = [puml.job_from_json(j) for j in pre["jobs"]]
            ppv = gen.present(pjobs, rng, pre["name"], "base")
            pres_ = learn.learn(ppv, pre["name"], lcase.STEP_BUDGET_BASE
                                + lcase.STEP_BUDGET_PER_EVENT * sum(len(j) for j in ppv))
            prelude_done += 1 if pres_["ok"] else 0
        reseed = getattr(_sys.modules.get("__main__"), "seed_uuid", None)
        if reseed is not None:
            reseed(case.get("uuid_seed", 0))
        pv = gen.present(jobs, rng, name, "base")
        out_extra = {"prelude_conversions": len(case.get("prelude", [])),
                     "prelude_conversions_ok": prelude_done}
    else:
        pv = gen.present(jobs, rng, name, variant)
    out: dict[str, Any] = {"status": "ok", "group": case["group"], "variant": case["variant"],
                           "uuid_seed": case.get("uuid_seed"), "rng_seed": case.get("rng_seed")}
    if variant.startswith("padded:") or variant == "after-conversions":
        out.update(out_extra)
    try:
        fp = _norm_fp(ingest_only([list(j) for j in pv]))
        out["ingest_ok"] = True
        ref = _norm_fp(reference_fingerprint(jobs))
        out["ingest_digest"] = puml_digest(fp)
        out["ingest_matches_reference"] = fp == ref
        if fp != ref:
            out["ingest_diff"] = fp_diff(fp, ref)
    except Exception as exc:  # noqa: BLE001
        out["ingest_ok"] = False
        out["ingest_exc"] = f"{type(exc).__name__}: {exc}"[:300]
    if case.get("ingest_only"):
        # job sets beyond fragment F (counts > 1): only the ingestion-level monitor applies
        out.update({"learn_ok": True, "ingest_only": True, "parsed": False, "names": [],
                    "steps": 0})
        return out
    n_events = sum(len(j) for j in pv)
    budget = lcase.STEP_BUDGET_BASE + lcase.STEP_BUDGET_PER_EVENT * n_events
    res = learn.learn(pv, name, budget)
    out["learn_ok"] = res["ok"]
    out["steps"] = res["steps"]
    if res["ok"]:
        out["puml"] = res["puml"]
        ast, problems, info = puml.parse(res["puml"], expect_name=name)
        out["parsed"] = ast is not None
        out["names"] = sorted(set(info["names"]))
        out["bcnt"] = info["bcnt"]
        out["strict_problems"] = [p["kind"] for p in problems][:4]
        import re
        out["bcnt_names"] = sorted(re.findall(r":([^;:]*?),BCNT", res["puml"]))
        if ast is not None:
            out["nf"] = repr(puml.normal_form(ast))
            if not case.get("counts"):
                rejected = [i for i, job in enumerate(jobs) if puml.accepts(ast, job) is False]
                out["rejected_jobs"] = rejected[:5]
    else:
        out["exc_type"] = res["exc_type"]
        out["exc"] = res.get("exc")
        out["where"] = res.get("where")
    return out


def puml_digest(obj: Any) -> str:
    import hashlib
    return hashlib.sha256(json.dumps(obj, sort_keys=True).encode()).hexdigest()[:16]


def fp_diff(a: dict, b: dict) -> dict:
    d = {}
    for t in sorted(set(a) | set(b)):
        if a.get(t) != b.get(t):
            d[t] = {"code": a.get(t), "reference": b.get(t)}
            if len(d) >= 3:
                break
    return d


def compare_texts_case(case: dict) -> dict:
    """Pairwise bounded language equivalence of the distinct diagrams of one job set."""
    rng = random.Random(case.get("rng_seed", 0))
    asts = []
    for t in case["texts"]:
        ast, _p, _i = puml.parse(t)
        asts.append(ast)
    out: dict[str, Any] = {"status": "ok", "group": case["group"], "pairs": 0, "diff": None,
                           "undecided": 0, "tested": 0}
    for i in range(len(asts)):
        for j in range(i + 1, len(asts)):
            if asts[i] is None or asts[j] is None:
                continue
            r = puml.equivalent(asts[i], asts[j], 2, case.get("cap", 1500), rng)
            out["pairs"] += 1
            out["tested"] += r.get("tested", 0)
            out["undecided"] += r.get("undecided", 0)
            if not r["ok"] and out["diff"] is None:
                out["diff"] = {"i": i, "j": j, "how": r["how"],
                               "witness": r.get("witness"), "only_a": r.get("only_a"),
                               "only_b": r.get("only_b")}
    return out


# ------------------------------------------------------------------------------------------
# C04
# ------------------------------------------------------------------------------------------

_GATE_MON = {"installed": False, "none_with_sets": 0, "reads": 0, "fresh_checks": 0,
             "stale": [], "fresh_undecided": 0, "seen": set()}


def _tree_signature(tree: Any) -> tuple:
    """What a gate tree says, independent of child order and node identity: the family of
    successor sets it admits and the event types standing under a branch-count node."""
    from . import gates
    branched: list[str] = []

    def walk(n: Any, under: bool) -> None:
        op = getattr(n.operator, "value", n.operator)
        if n.operator is None:
            if under and n.label is not None:
                branched.append(str(n.label))
            return
        for c in n.children:
            walk(c, under or op == "BR")
    walk(tree, False)
    return (gates.admitted(tree), tuple(sorted(branched)))


def install_gate_tree_monitor() -> None:
    """In-situ (state anchor of C04, the staleness flag): Event.logic_gate_tree must not read
    None for an event with successor sets, and the tree it returns must say what a tree
    computed NOW from the event's current successor sets says (checked once per event and
    state of its sets)."""
    if _GATE_MON["installed"]:
        return
    _GATE_MON["installed"] = True
    import tel2puml.events as ev
    prop = ev.Event.logic_gate_tree
    fget, fset = prop.fget, prop.fset

    def monitored(self):  # noqa: ANN001
        val = fget(self)
        _GATE_MON["reads"] += 1
        if val is None and len(self.event_sets) > 0:
            _GATE_MON["none_with_sets"] += 1
        elif val is not None and len(self.event_sets) > 0:
            key = (id(self), hash(frozenset(self.event_sets)))
            if key not in _GATE_MON["seen"]:
                _GATE_MON["seen"].add(key)
                try:
                    fresh = ev.calculate_logic_gates(self.event_sets)
                    a, b = _tree_signature(val), _tree_signature(fresh)
                except Exception:  # noqa: BLE001 - the monitor never disturbs the run
                    _GATE_MON["fresh_undecided"] += 1
                else:
                    _GATE_MON["fresh_checks"] += 1
                    if a != b and len(_GATE_MON["stale"]) < 3:
                        from . import gates
                        _GATE_MON["stale"].append({
                            "event_type": self.event_type,
                            "cached": gates.show_pt(val), "fresh": gates.show_pt(fresh),
                            "successor_sets": sorted(sorted(es.to_list()) for es in self.event_sets)})
        return val
    ev.Event.logic_gate_tree = property(monitored, fset)


def model_file_canonical(path: str) -> dict:
    with open(path) as fh:
        data = json.load(fh)
    evs = {}
    for e in data["events"]:
        def canon(sets: list) -> list:
            return sorted(sorted((x["eventType"], x["count"]) for x in s) for s in sets)
        if e["eventType"] in evs:
            evs[e["eventType"] + "#dup"] = True
        evs[e["eventType"]] = {"out": canon(e["outgoingEventSets"]),
                               "in": canon(e["incomingEventSets"])}
    return {"job_name": data["job_name"], "events": evs}


def _learn_guard(fn, budget: int) -> dict:  # noqa: ANN001
    from . import learn
    c = learn.counter()
    c.start(budget)
    try:
        fn()
        return {"ok": True}
    except learn.StepBudgetExceeded as exc:
        return {"ok": False, "exc_type": "StepBudgetExceeded", "exc": str(exc)}
    except RecursionError as exc:
        return {"ok": False, "exc_type": "RecursionError", "exc": str(exc)[:200]}
    except Exception as exc:  # noqa: BLE001
        import traceback
        tb = traceback.extract_tb(exc.__traceback__)
        where = next((f"{os.path.basename(f.filename)}:{f.name}" for f in reversed(tb)
                      if "tel2puml" in f.filename), "?")
        return {"ok": False, "exc_type": type(exc).__name__, "exc": str(exc)[:300],
                "where": where}
    finally:
        c.stop()


def run_history_case(case: dict) -> dict:
    """One history: the job set split into ordered chunks, each boundary crossing the model
    JSON file through the functions the CLI uses (-om / -im); compared with one-shot."""
    install_gate_tree_monitor()
    rng = random.Random(case["rng_seed"])
    jobs = [puml.job_from_json(j) for j in case["jobs"]]
    name = case["name"]
    pv = gen.present(jobs, rng, name, "base")
    n_events = sum(len(j) for j in pv)
    budget = lcase.STEP_BUDGET_BASE + lcase.STEP_BUDGET_PER_EVENT * n_events
    wd = tempfile.mkdtemp(prefix="c04-", dir=case["work_dir"])
    fname = name.replace(" ", "_")
    out: dict[str, Any] = {"status": "ok", "chunks": [len(c) for c in case["split"]]}
    _GATE_MON["none_with_sets"] = 0
    _GATE_MON["reads"] = 0
    _GATE_MON["fresh_checks"] = 0
    _GATE_MON["fresh_undecided"] = 0
    _GATE_MON["stale"] = []
    _GATE_MON["seen"] = set()
    def convert(pv_jobs: list[list[dict]], outdir: str, tag: str, model_in: str | None):
        """The -om/-im code path below the argument parser: job files on disk ->
        otel_to_puml(components="pv2puml", input_puml_models, output_puml_models=True)."""
        from tel2puml.otel_to_puml import otel_to_puml
        indir = os.path.join(wd, "in_" + tag)
        os.makedirs(indir)
        files = []
        for i, j in enumerate(pv_jobs):
            files.append(os.path.join(indir, f"job{i:03d}.json"))
            with open(files[-1], "w") as fh:
                json.dump(j, fh)
        otel_to_puml(
            pv_to_puml_options={"file_list": files, "job_name": name, "group_by_job_id": False},
            global_options={"input_puml_models": [model_in] if model_in else [],
                            "output_puml_models": True},
            output_file_directory=outdir, components="pv2puml")

    try:
        one = os.path.join(wd, "one")
        r = _learn_guard(lambda: convert([list(j) for j in pv], one, "one", None), budget)
        out["one_shot"] = r
        if r["ok"]:
            out["one_text"] = open(os.path.join(one, fname + ".puml")).read()
            out["one_model"] = model_file_canonical(os.path.join(one, fname + "_model.json"))
        prev_model = None
        steps = []
        for ci, idxs in enumerate(case["split"]):
            d = os.path.join(wd, f"chunk{ci}")
            chunk_pv = [list(pv[i]) for i in idxs]
            pm = prev_model
            r = _learn_guard(lambda: convert(chunk_pv, d, f"c{ci}", pm), budget)
            r["chunk"] = ci
            r["n_jobs"] = len(idxs)
            steps.append(r)
            if not r["ok"]:
                # is it the update path, or can this prefix of the evidence not be learned
                # at all?  one-shot run (no model) over everything supplied so far
                if ci == 0:
                    r["prefix_one_shot"] = {k: r.get(k) for k in ("ok", "exc_type", "where")}
                else:
                    upto = [list(pv[i]) for ch in case["split"][:ci + 1] for i in ch]
                    pr = _learn_guard(lambda: convert(upto, os.path.join(wd, "prefix"),
                                                      "prefix", None), budget)
                    r["prefix_one_shot"] = {k: pr.get(k) for k in ("ok", "exc_type", "where")}
                break
            prev_model = os.path.join(d, fname + "_model.json")
            if not os.path.exists(prev_model):
                r["ok"] = False
                r["exc_type"] = "ModelFileMissing"
                r["exc"] = "no " + fname + "_model.json written"
                break
        out["steps"] = steps
        if steps and steps[-1]["ok"] and len(steps) == len(case["split"]):
            d = os.path.join(wd, f"chunk{len(steps) - 1}")
            out["final_text"] = open(os.path.join(d, fname + ".puml")).read()
            out["final_model"] = model_file_canonical(prev_model)
        out["gate_tree_none_with_sets"] = _GATE_MON["none_with_sets"]
        out["gate_tree_reads"] = _GATE_MON["reads"]
        out["gate_tree_fresh_checks"] = _GATE_MON["fresh_checks"]
        out["gate_tree_fresh_undecided"] = _GATE_MON["fresh_undecided"]
        out["gate_tree_stale"] = list(_GATE_MON["stale"])
    finally:
        shutil.rmtree(wd, ignore_errors=True)
    out["reference_model"] = _norm_fp(reference_fingerprint(jobs))
    _judge_history(out, jobs, rng, case)
    return out


def _model_as_fp(model: dict) -> dict:
    return _norm_fp({t: {"out": [[list(x) for x in s] for s in v["out"]],
                         "in": [[list(x) for x in s] for s in v["in"]]}
                     for t, v in sorted(model["events"].items())})


def site_of(exc_type: str | None, where: str | None) -> str:
    """Exception type, with the raising site for the recorded mechanism (known finding
    keyed by call site, not by exception class)."""
    if exc_type == "ValueError" and (where or "").startswith("node.py:eventsets_incoming"):
        return "ValueError@eventsets_incoming"
    return str(exc_type)


def _failure_kind(bad: dict | None) -> str:
    if not bad:
        return "?"
    kind = site_of(bad.get("exc_type"), bad.get("where"))
    pre = bad.get("prefix_one_shot")
    if pre and not pre.get("ok") and pre.get("exc_type") == bad.get("exc_type") \
            and pre.get("where") == bad.get("where"):
        # learning the same evidence in one run fails in the same way at the same site: the
        # step fails because of the evidence so far, not because of the saved model
        return "prefix-evidence-unlearnable:" + kind
    return kind


def _judge_history(out: dict, jobs: list[tuple], rng: random.Random, case: dict) -> None:
    v: list[dict] = []
    one_ok = out.get("one_shot", {}).get("ok")
    fin_ok = "final_text" in out
    out["one_ok"], out["final_ok"] = bool(one_ok), fin_ok
    if one_ok and not fin_ok:
        bad = next((s for s in out["steps"] if not s["ok"]), None)
        v.append({"symptom": "history-fails:" + _failure_kind(bad), "detail": bad})
    if fin_ok and not one_ok:
        v.append({"symptom": "one-shot-fails-history-succeeds:" + out["one_shot"]["exc_type"],
                  "detail": out["one_shot"]})
    if fin_ok:
        fm = _model_as_fp(out["final_model"])
        if fm != out["reference_model"]:
            v.append({"symptom": "model-differs-from-evidence",
                      "detail": fp_diff(fm, out["reference_model"])})
        if one_ok and out["final_model"] != out["one_model"]:
            v.append({"symptom": "model-differs-from-one-shot",
                      "detail": fp_diff(_model_as_fp(out["final_model"]),
                                        _model_as_fp(out["one_model"]))})
    if fin_ok and one_ok and case.get("model_only"):
        # job sets beyond fragment F (counts > 1): the semantic oracle does not cover branch
        # counts, so only the models (exact) and the set of events carrying a branch count
        # are compared
        import re
        ba = sorted(re.findall(r":([^;:]*?),BCNT", out["final_text"]))
        bb = sorted(re.findall(r":([^;:]*?),BCNT", out["one_text"]))
        out["bcnt_events"] = len(bb)
        if ba != bb:
            v.append({"symptom": "branch-count-events-differ-from-one-shot",
                      "detail": {"history": ba, "one_shot": bb}})
    elif fin_ok and one_ok:
        a, _pa, ia = puml.parse(out["final_text"])
        b, _pb, ib = puml.parse(out["one_text"])
        if set(ia["names"]) != set(ib["names"]):
            v.append({"symptom": "events-differ-from-one-shot",
                      "detail": {"only_history": sorted(set(ia["names"]) - set(ib["names"])),
                                 "only_one_shot": sorted(set(ib["names"]) - set(ia["names"]))}})
        elif a is not None and b is not None:
            r = puml.equivalent(a, b, 2, case.get("cap", 1500), rng)
            out["equiv_how"] = r.get("how")
            out["equiv_tested"] = r.get("tested", 0)
            if not r["ok"]:
                v.append({"symptom": "language-differs-from-one-shot",
                          "detail": {"how": r["how"], "witness": r.get("witness")}})
        elif (a is None) != (b is None):
            v.append({"symptom": "wellformedness-differs-from-one-shot", "detail": {}})
        else:
            out["both_unparsable"] = True
        if a is not None:
            rej = [i for i, job in enumerate(jobs) if puml.accepts(a, job) is False]
            out["final_rejects"] = rej[:5]
    if out.get("gate_tree_stale"):
        v.append({"symptom": "gate-tree-read-does-not-reflect-current-successor-sets",
                  "detail": {"examples": out["gate_tree_stale"]}})
    if out.get("gate_tree_none_with_sets"):
        v.append({"symptom": "gate-tree-missing-for-event-with-successors",
                  "detail": {"count": out["gate_tree_none_with_sets"]}})
    out["violations"] = v
    for k in ("one_model", "final_model", "reference_model"):
        out.pop(k, None)


# -- model round trip ---------------------------------------------------------------------


def run_roundtrip_case(case: dict) -> dict:
    """Hand-built model (counts > 1, empty set lists, odd names) -> save -> load -> save."""
    from tel2puml.events import Event, save_events_to_file, load_events_from_file
    rng = random.Random(case["rng_seed"])
    names = case["names"]
    events = {}
    for t in names:
        ev = Event(t)
        for _ in range(rng.choice([0, 0, 1, 2, 3])):
            ms = [rng.choice(names) for _ in range(rng.randint(1, 4))]
            ev.update_event_sets(ms)
        for _ in range(rng.choice([0, 1, 2])):
            ms = [rng.choice(names) for _ in range(rng.randint(1, 3))]
            ev.update_in_event_sets(ms)
        events[t] = ev
    wd = tempfile.mkdtemp(prefix="c04rt-", dir=case["work_dir"])
    out: dict[str, Any] = {"status": "ok", "violations": []}
    try:
        p1, p2 = os.path.join(wd, "m1.json"), os.path.join(wd, "m2.json")
        job_name = case["job_name"]
        save_events_to_file(job_name, events, p1)
        jn, loaded = load_events_from_file(p1)
        save_events_to_file(jn, loaded, p2)
        fp0, fp1 = _norm_fp(events_fingerprint(events)), _norm_fp(events_fingerprint(loaded))
        out["max_count"] = max([c for t in fp0.values() for s in t["out"] + t["in"]
                                for _n, c in s] or [0])
        out["empty_lists"] = sum(1 for t in fp0.values() if not t["out"])
        if jn != job_name:
            out["violations"].append({"symptom": "roundtrip:job-name", "detail": [jn, job_name]})
        if fp0 != fp1:
            out["violations"].append({"symptom": "roundtrip:events-differ",
                                      "detail": fp_diff(fp1, fp0)})
        if model_file_canonical(p1) != model_file_canonical(p2):
            out["violations"].append({"symptom": "roundtrip:second-save-differs", "detail": {}})
        # the loaded events must recompute their logic on demand
        for t, ev in loaded.items():
            if ev.event_sets and ev.logic_gate_tree is None:
                out["violations"].append({"symptom": "roundtrip:loaded-event-without-logic",
                                          "detail": {"event": t}})
                break
    finally:
        shutil.rmtree(wd, ignore_errors=True)
    return out


# -- real CLI ------------------------------------------------------------------------------


def cli(args: list[str], cwd: str, timeout: int = 300) -> dict:
    env = dict(os.environ)
    p = subprocess.run([sys.executable, "-m", "tel2puml"] + args, cwd=cwd, env=env,
                       capture_output=True, text=True, timeout=timeout)
    return {"rc": p.returncode, "out": (p.stdout or "")[-1500:], "err": (p.stderr or "")[-800:]}


def run_cli_history_case(case: dict) -> dict:
    """The same history through `python -m tel2puml pv2puml ... -om / -im` in separate
    processes (one JSON array file per job)."""
    rng = random.Random(case["rng_seed"])
    jobs = [puml.job_from_json(j) for j in case["jobs"]]
    name = case["name"]
    fname = name.replace(" ", "_")
    pv = gen.present(jobs, rng, name, "base")
    wd = tempfile.mkdtemp(prefix="c04cli-", dir=case["work_dir"])
    out: dict[str, Any] = {"status": "ok", "chunks": [len(c) for c in case["split"]],
                           "violations": [], "cli_runs": 0}
    try:
        def write_jobs(dirname: str, idxs: list[int]) -> str:
            d = os.path.join(wd, dirname)
            os.makedirs(d)
            for i in idxs:
                with open(os.path.join(d, f"job{i}.json"), "w") as fh:
                    json.dump(pv[i], fh)
            return d
        all_dir = write_jobs("in_all", list(range(len(pv))))
        r = cli(["-o", os.path.join(wd, "one"), "pv2puml", "-fp", all_dir, "-jn", name, "-om"], wd)
        out["cli_runs"] += 1
        one_ok = r["rc"] == 0
        out["one_rc"] = r["rc"]
        prev = None
        fin_ok = True
        for ci, idxs in enumerate(case["split"]):
            if not idxs:
                # an empty folder is refused by the CLI (FileNotFoundError): a pure reload is
                # exercised through the library path only
                out["skipped_empty_chunk"] = True
                continue
            d = write_jobs(f"in{ci}", idxs)
            args = ["-o", os.path.join(wd, f"out{ci}"), "pv2puml", "-fp", d, "-jn", name, "-om"]
            if prev:
                args += ["-im", prev]
            r = cli(args, wd)
            out["cli_runs"] += 1
            if r["rc"] != 0:
                fin_ok = False
                out["failed_step"] = {"chunk": ci, "rc": r["rc"], "out": r["out"][-600:]}
                marker = "Event sets incoming is not set"
                same = marker in r["out"]
                if same and prev:
                    upto = [i for ch in case["split"][:ci + 1] for i in ch]
                    pr = cli(["-o", os.path.join(wd, "outprefix"), "pv2puml", "-fp",
                              write_jobs("inprefix", upto), "-jn", name], wd)
                    out["cli_runs"] += 1
                    same = pr["rc"] != 0 and marker in pr["out"]
                out["failed_step"]["prefix_unlearnable_at_eventsets_incoming"] = same
                break
            prev = os.path.join(wd, f"out{ci}", fname + "_model.json")
            last = os.path.join(wd, f"out{ci}", fname + ".puml")
        out["one_ok"], out["final_ok"] = one_ok, fin_ok
        if one_ok and not fin_ok:
            kind = "prefix-evidence-unlearnable:ValueError@eventsets_incoming" \
                if out["failed_step"].get("prefix_unlearnable_at_eventsets_incoming") \
                else "cli-exit-status"
            out["violations"].append({"symptom": "history-fails:" + kind,
                                      "detail": out["failed_step"]})
        if fin_ok and not one_ok:
            out["violations"].append({"symptom": "one-shot-fails-history-succeeds:cli",
                                      "detail": {}})
        if one_ok and fin_ok:
            m1 = model_file_canonical(os.path.join(wd, "one", fname + "_model.json"))
            m2 = model_file_canonical(prev)
            if m1 != m2:
                out["violations"].append({"symptom": "model-differs-from-one-shot",
                                          "detail": fp_diff(_model_as_fp(m2), _model_as_fp(m1))})
            if _model_as_fp(m2) != _norm_fp(reference_fingerprint(jobs)):
                out["violations"].append({"symptom": "model-differs-from-evidence", "detail": {}})
            ta = open(last).read()
            tb = open(os.path.join(wd, "one", fname + ".puml")).read()
            a, _pa, ia = puml.parse(ta)
            b, _pb, ib = puml.parse(tb)
            out["final_text"], out["one_text"] = ta, tb
            if set(ia["names"]) != set(ib["names"]):
                out["violations"].append({"symptom": "events-differ-from-one-shot", "detail": {}})
            elif a is not None and b is not None:
                r2 = puml.equivalent(a, b, 2, case.get("cap", 1500), rng)
                out["equiv_how"] = r2.get("how")
                if not r2["ok"]:
                    out["violations"].append({"symptom": "language-differs-from-one-shot",
                                              "detail": {"how": r2["how"],
                                                         "witness": r2.get("witness")}})
            elif (a is None) != (b is None):
                out["violations"].append({"symptom": "wellformedness-differs-from-one-shot",
                                          "detail": {}})
    finally:
        shutil.rmtree(wd, ignore_errors=True)
    return out


# ------------------------------------------------------------------------------------------
# C01/C05 through the real command line
# ------------------------------------------------------------------------------------------


def run_cli_learn_case(case: dict) -> dict:
    """One job set through `python -m tel2puml pv2puml` in a separate process, in one of the
    three input modes (folder of job files, list of job files, one file per event with
    -group-by-job); the emitted file is judged like a pv_to_puml_string result."""
    from . import learn
    rng = random.Random(case["rng_seed"])
    jobs = [puml.job_from_json(j) for j in case["jobs"]]
    name = case.get("puml_name", case["name"])
    pv = gen.present(jobs, rng, name, case.get("variant", "all"))
    wd = tempfile.mkdtemp(prefix="c01cli-", dir=case["work_dir"])
    out: dict[str, Any] = {"status": "ok", "mode": case["mode"]}
    try:
        d = os.path.join(wd, "in")
        os.makedirs(d)
        files = []
        if case["mode"] == "group-by-job":
            flat = [e for j in pv for e in j]
            rng.shuffle(flat)
            for i, e in enumerate(flat):
                files.append(os.path.join(d, f"e{i:04d}.json"))
                with open(files[-1], "w") as fh:
                    json.dump(e, fh)
        else:
            for i, j in enumerate(pv):
                files.append(os.path.join(d, f"job{i:03d}.json"))
                with open(files[-1], "w") as fh:
                    json.dump(j, fh)
        args = ["-o", os.path.join(wd, "out"), "pv2puml", "-jn", name]
        if case["mode"] == "folder":
            args += ["-fp", d]
        else:
            args += files
        if case["mode"] == "group-by-job":
            args += ["-group-by-job"]
        try:
            r = cli(args, wd, timeout=case.get("cli_timeout", 600))
        except subprocess.TimeoutExpired:
            out["status"] = "watchdog"
            out["detail"] = "CLI exceeded the wall-clock watchdog"
            return out
        out["rc"] = r["rc"]
        path = os.path.join(wd, "out", name.replace(" ", "_") + ".puml")
        out["learn_ok"] = r["rc"] == 0 and os.path.exists(path)
        out["steps"] = 0
        out["n_jobs"] = len(jobs)
        out["n_events"] = sum(len(j) for j in jobs)
        if out["learn_ok"]:
            out["puml"] = open(path).read()
            out["judge"] = learn.judge_output(out["puml"], name, jobs, None, check_extra=False)
        else:
            out["exc_type"] = "CLIExitStatus"
            out["exc"] = r["out"][-500:]
            out["where"] = "cli"
    finally:
        shutil.rmtree(wd, ignore_errors=True)
    return out


# ------------------------------------------------------------------------------------------
# several job names emitted by ONE call (C05: "every emitted file")
# ------------------------------------------------------------------------------------------


def run_multi_job_case(case: dict) -> dict:
    """pv_streams_to_puml_files([(name1, jobs1), (name2, jobs2), ...], dir): one file per job
    name; every file is judged against its own jobs only."""
    from . import learn
    from tel2puml.pv_to_puml.pv_to_puml import pv_streams_to_puml_files
    rng = random.Random(case["rng_seed"])
    wd = tempfile.mkdtemp(prefix="c05multi-", dir=case["work_dir"])
    out: dict[str, Any] = {"status": "ok", "parts": []}
    try:
        streams = []
        jobs_by_name = {}
        for part in case["parts"]:
            jobs = [puml.job_from_json(j) for j in part["jobs"]]
            jobs_by_name[part["name"]] = jobs
            streams.append((part["name"], gen.present(jobs, rng, part["name"], "base")))
        n_events = sum(len(j) for js in jobs_by_name.values() for j in js)
        r = _learn_guard(lambda: pv_streams_to_puml_files(
            ((n, (list(j) for j in pv)) for n, pv in streams), wd),
            lcase.STEP_BUDGET_BASE + lcase.STEP_BUDGET_PER_EVENT * n_events)
        out["call_ok"] = r["ok"]
        if not r["ok"]:
            out["exc_type"], out["exc"] = r["exc_type"], r.get("exc")
        for part in case["parts"]:
            path = os.path.join(wd, part["name"].replace(" ", "_") + ".puml")
            if not os.path.exists(path):
                out["parts"].append({"name": part["name"], "emitted": False})
                continue
            text = open(path).read()
            j = learn.judge_output(text, part["name"], jobs_by_name[part["name"]], None,
                                   check_extra=False)
            out["parts"].append({"name": part["name"], "emitted": True, "puml": text,
                                 "problems": j["problems"], "missing": j["missing_names"],
                                 "extra": j["extra_names"], "leaked": j["leaked"],
                                 "rejected": j.get("rejected_jobs", [])})
    finally:
        shutil.rmtree(wd, ignore_errors=True)
    return out
