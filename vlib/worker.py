"""Worker process: `python -m vlib.worker <module> <func> <in.json> <out.jsonl>`.

Installs the schedule control (seeded uuid4) *before* anything of tel2puml is imported,
silences logging/progress output, then runs func(case) per case and appends one JSON line
per case (flushed, so a crash loses only the case in flight)."""
from __future__ import annotations

import importlib
import json
import logging
import os
import random
import signal
import sys
import traceback
import uuid

_RNG = random.Random(0)
_REAL_UUID4 = uuid.uuid4


def _seeded_uuid4() -> uuid.UUID:
    return uuid.UUID(int=_RNG.getrandbits(128), version=4)


def seed_uuid(seed: int | str) -> None:
    _RNG.seed(f"uuid-{seed}")


def install_schedule_control() -> None:
    uuid.uuid4 = _seeded_uuid4  # type: ignore[assignment]


class CaseTimeout(BaseException):
    """Wall-clock watchdog (inconclusive, never a verdict).  BaseException so that the
    `except Exception` blocks around the code under test cannot mistake it for a failure of
    that code."""


def _alarm(_sig, _frm):  # noqa: ANN001
    raise CaseTimeout()


def main() -> int:
    module, func, inp, outp = sys.argv[1:5]
    install_schedule_control()
    logging.disable(logging.ERROR)
    os.environ.setdefault("TQDM_DISABLE", "1")
    sys.setrecursionlimit(10000)
    fn = getattr(importlib.import_module(module), func)
    with open(inp) as fh:
        cases = json.load(fh)
    signal.signal(signal.SIGALRM, _alarm)
    with open(outp, "w") as out:
        for case in cases:
            seed_uuid(case.get("uuid_seed", 0))
            limit = int(case.get("_wall_limit", 300))
            signal.alarm(limit)
            try:
                res = fn(case)
            except CaseTimeout:
                res = {"status": "watchdog", "detail": f"case exceeded {limit}s wall clock"}
            except Exception as exc:  # harness failure, not a verdict
                res = {"status": "harness-error",
                       "detail": f"{type(exc).__name__}: {exc}",
                       "trace": traceback.format_exc()[-1500:]}
            finally:
                signal.alarm(0)
            res["_idx"] = case["_idx"]
            out.write(json.dumps(res, default=str) + "\n")
            out.flush()
    return 0


if __name__ == "__main__":
    sys.exit(main())
