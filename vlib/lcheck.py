"""Shared driver for the learner checks C01, C02, C05, C07 (and the C06 in-situ part)."""
from __future__ import annotations

import json
from typing import Any, Callable

from . import core, lcase, puml

DECIDING_FUNCS = {
    "walk": "pv_to_puml/walk_puml_graph/walk_puml_logic_graph:walk_nested_graph",
    "merge_check": "pv_to_puml/walk_puml_graph/walk_puml_logic_graph:_check_merge_is_correct",
    "detect_loops": "loop_detection/detect_loops:detect_loops",
    "gates": "logic_detection:calculate_logic_gates",
    "write": "puml_graph:write_puml_string",
}


def symptoms_of(r: dict) -> list[tuple[str, str, dict]]:
    """All (aspect, symptom, detail) of one learner result.  aspect in
    run|parse|accept|extra|wellformed|names|gates|loops."""
    out: list[tuple[str, str, dict]] = []
    if not r["learn_ok"]:
        if r["exc_type"] == "StepBudgetExceeded":
            out.append(("run", "non-termination:step-budget", {"exc": r["exc"]}))
        else:
            from .present import site_of
            out.append(("run", "exception:" + site_of(r["exc_type"], r.get("where")),
                        {"exc": r.get("exc"), "where": r.get("where")}))
    else:
        j = r["judge"]
        fatal = [p for p in j["problems"] if p.get("fatal")]
        other = [p for p in j["problems"] if not p.get("fatal")]
        if fatal:
            out.append(("parse", "malformed:" + fatal[0]["kind"], {"problem": fatal[0]}))
        for p in other:
            out.append(("wellformed", "malformed:" + p["kind"], {"problem": p}))
        if j["missing_names"]:
            out.append(("names", "names:event-missing-from-diagram", {"missing": j["missing_names"]}))
        if j["extra_names"]:
            kind = "names:placeholder-leaked" if j["leaked"] else "names:event-not-in-input"
            out.append(("names", kind, {"extra": j["extra_names"]}))
        if j.get("bcnt"):
            out.append(("names", "branch-count-emitted", {}))
        if j.get("rejected_jobs"):
            kind = "failed-merge" if j.get("failed_merge_signature") else "other"
            out.append(("accept", "rejects-input:" + kind,
                        {"rejected_job_indices": j["rejected_jobs"][:5]}))
        ex = j.get("extra")
        if ex and not ex["ok"]:
            out.append(("extra", "extra-language", {"witness_job": ex["witness"]}))
    g = r.get("gates")
    if g and g["unsound"]:
        out.append(("gates", "unsound:observed-set-not-admitted", {"example": g["unsound"][0]}))
    for rep in r.get("loops", []) or []:
        for p in rep["problems"]:
            kind = p.split(":")[0].split(" in ")[0]
            out.append(("loops", "loop-nesting:" + kind, {"problem": p}))
    return out


def refine(c: dict, r: dict, symptom: str) -> str:
    """Symptoms that need the source definition next to the result."""
    if symptom == "rejects-input:other" and r.get("puml"):
        # signature of the second recorded mechanism on incomplete evidence: an event that the
        # source has inside a loop stands outside every loop in the learned diagram (the tail
        # of the last observed iteration is hoisted behind the loop)
        learned, _p, _i = puml.parse(r["puml"])
        if learned is not None and puml.names_in_loops(c["src"]) - puml.names_in_loops(learned):
            return "rejects-input:loop-tail-hoisted"
    return symptom


def run(chk: core.Check, cases: list[dict], aspects: set[str],
        on_result: Callable[[dict, dict], None] | None = None,
        hashseeds: list[int] | None = None, skip_no_output: bool = False,
        worker: tuple[str, str] = ("vlib.lcase", "run_learn_case"), label: str = "") -> dict:
    """Execute cases, record evidence, raise violations for symptoms in `aspects`."""
    results, notes = core.run_workers(worker[0], worker[1], cases,
                                      hashseeds=hashseeds, chunks_per_proc=4, timeout=3000)
    for n in notes:
        chk.note_inconclusive(n)
    reach: dict[str, int] = {}
    out_forms: set[str] = set()
    agg = {"jobs_matched": 0, "max_steps": 0, "extra_jobs_tested": 0, "learner_failures": 0,
           "undecided_membership": 0}
    per_stratum: dict[str, dict[str, int]] = {}
    steps: list[int] = []
    for r in results:
        c = cases[r["_idx"]]
        if r.get("status") != "ok":
            chk.note_inconclusive(f"case {c['name']}: {r.get('status')} {r.get('detail')}")
            continue
        def_key = core.digest([repr(puml.normal_form(c["src"])), c["stratum"], c["k"],
                               len(c["jobs"])])
        nontrivial = puml.has_kind(c["src"], ("and", "or", "xor", "loop"))
        chk.case(def_key, nontrivial)
        if len(chk.samples) < 5 and nontrivial and len(c["jobs"]) <= 6:
            chk.samples.append({"definition": puml.to_text(c["src"], c["name"]).split("\n"),
                                "stratum": c["stratum"], "jobs": c["jobs"][:3],
                                "learned": (r.get("puml") or "").split("\n")})
        steps.append(r["steps"])
        agg["max_steps"] = max(agg["max_steps"], r["steps"])
        for k, v in r.get("reach", {}).items():
            reach[k] = reach.get(k, 0) + v
        st = per_stratum.setdefault(f"{c['kind']}/{c['stratum']}", {"cases": 0, "flagged": 0})
        st["cases"] += 1
        if r["learn_ok"]:
            j = r["judge"]
            if j.get("parsed"):
                agg["jobs_matched"] += len(c["jobs"]) - len(j.get("rejected_jobs", []))
                agg["undecided_membership"] += j.get("undecided", 0)
                out_forms.add(j.get("out_normal_form", ""))
            if j.get("extra"):
                agg["extra_jobs_tested"] += j["extra"].get("tested", 0)
        else:
            agg["learner_failures"] += 1
            if skip_no_output:
                chk.skip("no diagram emitted (learner raised) - decided by C01")
        flagged = False
        for aspect, symptom, detail in symptoms_of(r):
            if aspect not in aspects:
                continue
            if symptom == "branch-count-emitted" and "same-end" in c["tags"]:
                continue    # branch counts are what this stratum provokes on purpose
            symptom = refine(c, r, symptom)
            flagged = True
            witness = {"case": {k: v for k, v in c.items()}, "symptom_detail": detail,
                       "hashseed": r.get("_hashseed"), "learned": r.get("puml")}
            chk.violation(symptom, witness, c["tags"])
        if flagged:
            st["flagged"] += 1
        if on_result:
            on_result(c, r)
    steps.sort()
    if label:
        chk.extra[label] = {"cases": len(results), "per_stratum": per_stratum, **agg}
        return {"reach": reach, "results": results}
    chk.extra.update({
        "distinct_learned_diagrams": len(out_forms),
        "median_steps": steps[len(steps) // 2] if steps else 0,
        "per_stratum": per_stratum,
        **agg,
    })
    chk.extra["reach_counters"] = {k: reach.get(v, 0) for k, v in DECIDING_FUNCS.items()}
    chk.extra["functions_reached"] = len(reach)
    chk.extra["reach_top"] = dict(sorted(reach.items(), key=lambda kv: -kv[1])[:12])
    return {"reach": reach, "results": results}


def replay_case(prop: str, path: str, aspects: set[str]) -> int:
    with open(path) as fh:
        data = json.load(fh)
    c = data["case"]["case"]
    hs = data["case"].get("hashseed") or 0
    w = ("vlib.present", "run_cli_learn_case") if c.get("mode") else ("vlib.lcase", "run_learn_case")
    if c.get("mode"):
        c = dict(c, work_dir=core.work_dir())
    results, notes = core.run_workers(w[0], w[1], [c], nproc=1, hashseeds=[hs])
    bad = False
    for r in results:
        if r.get("status") != "ok":
            print("harness:", r)
            continue
        print(r.get("puml") or r.get("exc"))
        kf = core.KnownFindings()
        for aspect, symptom, detail in symptoms_of(r):
            symptom = refine(c, r, symptom)
            known = kf.match(prop, c.get("tags", []), symptom) if aspect in aspects else None
            print(aspect, symptom, json.dumps(detail)[:400],
                  f"[known finding {known['id']}]" if known else "")
            if aspect in aspects and not known:
                bad = True
    if bad:
        print(f"VIOLATION property={prop} replay={path}")
        return 1
    return 0 if results else 2
