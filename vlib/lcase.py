"""Case construction (driver side) and the worker entry point shared by the learner checks
C01-C05, C07 (DESIGN.md 2.4/3.1-3.5)."""
from __future__ import annotations

import random
from typing import Any

from . import core, gen, puml

STEP_BUDGET_BASE = 3_000_000       # calibrated: see DESIGN.md (max observed << this / 200)
STEP_BUDGET_PER_EVENT = 400_000


def ast_json(ast: list) -> list:
    def s(seq: list) -> list:
        out = []
        for st in seq:
            if st[0] in ("and", "or", "xor"):
                out.append([st[0], [s(b) for b in st[1]]])
            elif st[0] == "loop":
                out.append(["loop", s(st[1])])
            else:
                out.append(list(st))
        return out
    return s(ast)


def definitions(tier: str, seed: int, want: dict[str, int]) -> list[dict]:
    """[{name, kind, ast, tags}] - kind in corpus|core-exh|core-rand|edge."""
    rng = random.Random(f"defs-{seed}")
    defs: list[dict] = []
    if want.get("corpus", 0):
        for c in gen.corpus():
            if c["ast"] is None:
                continue
            defs.append({"name": c["name"], "kind": "corpus", "ast": c["ast"],
                         "tags": sorted(gen.tags_of(c["ast"]) | {"corpus", "corpus:" + c["name"]})})
    if want.get("core-exh", 0):
        ex = gen.exhaustive_small()
        n = want["core-exh"]
        if n < len(ex):
            # deterministic rotating window so that different seeds cover different parts
            start = (seed * n) % len(ex)
            ex = (ex + ex)[start:start + n]
        for i, ast in enumerate(ex):
            defs.append({"name": f"exh{i}", "kind": "core-exh", "ast": ast,
                         "tags": sorted(gen.tags_of(ast) | {"F_core"})})
    for i in range(want.get("core-rand", 0)):
        ast = gen.random_core(rng)
        defs.append({"name": f"core{i}", "kind": "core-rand", "ast": ast,
                     "tags": sorted(gen.tags_of(ast) | {"F_core"})})
    for i in range(want.get("edge", 0)):
        if i % 2:
            ast, kind = gen.random_liberal(rng)
        else:
            ast, kind = gen.random_edge(rng, gen.EDGE_KINDS[(i // 2) % len(gen.EDGE_KINDS)])
        defs.append({"name": f"edge{i}", "kind": "edge", "ast": ast,
                     "tags": sorted(gen.tags_of(ast) | {"F_edge"})})
    for i in range(want.get("start-block", 0)):
        ast = gen.random_start_block(rng)
        defs.append({"name": f"sblk{i}", "kind": "start-block", "ast": ast,
                     "tags": sorted(gen.tags_of(ast) | {"beyond-F", "start-block"})})
    if want.get("bunched", 0):
        fam = gen.bunched_family()
        n = want["bunched"]
        if n < len(fam):
            start = (seed * n) % len(fam)
            fam = (fam + fam)[start:start + n]
        for i, ast in enumerate(fam):
            defs.append({"name": f"bunched{i}", "kind": "bunched", "ast": ast,
                         "tags": sorted(gen.tags_of(ast) | {"beyond-F", "bunched"})})
    if want.get("bunched", 0):
        for i, ast in enumerate(gen.deep_nest_family()):
            defs.append({"name": f"deep{i}", "kind": "bunched", "ast": ast,
                         "tags": sorted(gen.tags_of(ast) | {"beyond-F", "bunched", "deep-nest"})})
    if want.get("loop-families", 0):
        for i, ast in enumerate(gen.loop_start_block_family()):
            defs.append({"name": f"lsb{i}", "kind": "loop-families", "ast": ast,
                         "tags": sorted(gen.tags_of(ast) | {"beyond-F", "loop-starts-with-block"})})
        for i, ast in enumerate(gen.loop_end_nested_fork_family()):
            defs.append({"name": f"lenf{i}", "kind": "loop-families", "ast": ast,
                         "tags": sorted(gen.tags_of(ast) | {"F_edge", "loop-ends-in-nested-fork"})})
        for i, ast in enumerate(gen.two_break_xors_family()):
            t = gen.tags_of(ast)
            defs.append({"name": f"l2bx{i}", "kind": "loop-families", "ast": ast,
                         "tags": sorted(t | {gen.stratum_of(t), "two-break-xors"})})
        for i, ast in enumerate(gen.plain_break_family()):
            t = gen.tags_of(ast)
            defs.append({"name": f"lpb{i}", "kind": "loop-families", "ast": ast,
                         "tags": sorted(t | {gen.stratum_of(t), "plain-breaks"})})
    if want.get("start-block", 0):
        for i, ast in enumerate(gen.break_xor_start_block_family()):
            defs.append({"name": f"bxsb{i}", "kind": "start-block", "ast": ast,
                         "tags": sorted(gen.tags_of(ast) | {"beyond-F", "start-block"})})
    for i in range(want.get("same-end", 0)):
        ast = gen.random_same_end(rng)
        defs.append({"name": f"same{i}", "kind": "same-end", "ast": ast,
                     "tags": sorted(gen.tags_of(ast) | {"beyond-F", "same-end"})})
    return defs


def complete_jobs(ast: list, k: int, cap: int) -> list[tuple] | None:
    try:
        return puml.enumerate_jobs(ast, k, cap, max_runs=cap * 30)
    except puml.TooMany:
        return None


def s1_cases(defs: list[dict], seed: int, k_list=(2,), cap: int = 300, schedules: int = 2,
             corpus_schedules: int | None = None, **flags: Any) -> tuple[list[dict], dict]:
    """Complete-sample cases.  Returns (cases, stats)."""
    cases = []
    stats = {"defs": 0, "skipped_too_many_jobs": 0}
    for d in defs:
        for k in k_list:
            jobs = complete_jobs(d["ast"], k, cap)
            if jobs is None:
                stats["skipped_too_many_jobs"] += 1
                continue
            if k > 2 and len(jobs) == len(complete_jobs(d["ast"], 2, cap) or []):
                continue  # no loop: k=3 adds nothing
            stats["defs"] += 1
            nsched = corpus_schedules if (corpus_schedules and d["kind"] == "corpus") else schedules
            for s in range(nsched):
                cases.append({
                    "name": d["name"], "kind": d["kind"], "src": ast_json(d["ast"]),
                    "tags": d["tags"] + ["S1"], "stratum": "S1", "k": k,
                    "jobs": [puml.job_to_json(j) for j in jobs],
                    "variant": "base" if s == 0 else "all",
                    "uuid_seed": f"{seed}-{d['name']}-{k}-{s}",
                    "rng_seed": f"{seed}-{d['name']}-{k}-{s}", **flags})
    return cases, stats


def s2_cases(defs: list[dict], seed: int, per_def: int = 2, cap: int = 300, **flags: Any
             ) -> tuple[list[dict], dict]:
    """Strict random subsets of L_3(D), classified S2-eq / S2-neq by the evidence model."""
    cases = []
    stats = {"S2-eq": 0, "S2-neq": 0}
    for d in defs:
        if d["kind"] not in ("corpus", "core-exh", "core-rand", "edge"):
            continue    # partial evidence is generated inside F and the corpus only
        rng = random.Random(f"s2-{seed}-{d['name']}")
        full = complete_jobs(d["ast"], 3, cap)
        if full is None or len(full) < 3:
            continue
        model = puml.evidence_model(full)
        for s in range(per_def):
            n = rng.randint(1, len(full) - 1)
            sub = rng.sample(full, n)
            eq = puml.evidence_model(sub) == model
            st = "S2-eq" if eq else "S2-neq"
            stats[st] += 1
            cases.append({
                "name": d["name"], "kind": d["kind"], "src": ast_json(d["ast"]),
                "tags": d["tags"] + [st, "S2"], "stratum": st, "k": 3,
                "jobs": [puml.job_to_json(j) for j in sub],
                "variant": "all" if s % 2 else "base",
                "uuid_seed": f"{seed}-{d['name']}-s2-{s}",
                "rng_seed": f"{seed}-{d['name']}-s2-{s}", "check_extra": False, **flags})
    return cases, stats


def evidence_subset_cases(tier: str, seed: int, **flags: Any) -> tuple[list[dict], dict]:
    """Every (thorough; quick: every for the small ones, seeded sample otherwise) non-empty
    subset of the executions of a few small fork definitions - the learner must cope with ANY
    part of the evidence, not only with the random subsets of s2_cases."""
    def E(n: str) -> tuple:
        return ("ev", n)
    small = {
        "or3": [E("A"), ("or", [[E("B")], [E("C")], [E("E")]]), E("D")],
        "and_xor2": [E("A"), ("and", [[E("P"), ("xor", [[E("B")], [E("C")]]), E("Q")],
                                      [E("R"), ("xor", [[E("F")], [E("G")]]), E("S")]]), E("D")],
        "xor_or": [E("A"), ("xor", [[E("X"), ("or", [[E("B")], [E("C")]]), E("Y")], [E("Z")]]),
                   E("D")],
        "or2_or2": [E("A"), ("or", [[E("B")], [E("C")]]), E("M"), ("or", [[E("F")], [E("G")]]),
                    E("D")],
        "or3_long": [E("A"), ("or", [[E("B"), E("B2")], [E("C")], [E("E"), E("E2")]]), E("D")],
        "loop_or3": [E("A"), ("loop", [E("L"), ("or", [[E("B")], [E("C")], [E("E")]]), E("M")]),
                     E("D")],
        "and3_or2": [E("A"), ("and", [[E("P")], [E("Q")], [E("R"), ("or", [[E("B")], [E("C")]]),
                                                            E("S")]]), E("D")],
    }
    rng = random.Random(f"evsub-{seed}")
    cases: list[dict] = []
    stats: dict[str, int] = {}
    items = [(name, ast, {"F_core"}) for name, ast in small.items()]
    for c in gen.corpus():
        if c["ast"] is None:
            continue
        jobs = complete_jobs(c["ast"], 2, 400)
        if jobs and 2 <= len(jobs) <= 8:
            items.append((c["name"], c["ast"], {"corpus", "corpus:" + c["name"]}))
    for name, ast, extra_tags in items:
        jobs = complete_jobs(ast, 2, 400) or []
        n = len(jobs)
        full = puml.evidence_model(jobs)
        limit = 127 if tier == "quick" else 1100
        if "corpus" in extra_tags and tier == "quick":
            masks = sorted({rng.randrange(1, 2 ** n) for _ in range(6)})
        elif 2 ** n - 1 <= limit:
            masks = list(range(1, 2 ** n))
        else:
            masks = sorted({rng.randrange(1, 2 ** n) for _ in range(60 if tier == "quick" else 700)})
        stats[name] = len(masks)
        tags0 = sorted(gen.tags_of(ast) | extra_tags | {"evidence-subsets"})
        for m in masks:
            sub = [jobs[i] for i in range(n) if m >> i & 1]
            complete = len(sub) == n
            eq = puml.evidence_model(sub) == full
            st = "S1" if complete else ("S2-eq" if eq else "S2-neq")
            cases.append({
                "name": name, "kind": "evidence-subsets", "src": ast_json(ast),
                "tags": tags0 + [st] + ([] if complete else ["S2"]), "stratum": st, "k": 2,
                "jobs": [puml.job_to_json(j) for j in sub], "variant": "base",
                "uuid_seed": f"{seed}-{name}-{m}", "rng_seed": f"{seed}-{name}-{m}",
                "check_extra": False, **flags})
    return cases, stats


# ---------------------------------------------------------------------------- worker side
def run_learn_case(case: dict) -> dict:
    from . import learn
    rng = random.Random(case["rng_seed"])
    jobs = [puml.job_from_json(j) for j in case["jobs"]]
    name = case.get("puml_name", case["name"])
    pv = gen.present(jobs, rng, name, case.get("variant", "base"))
    n_events = sum(len(j) for j in jobs)
    budget = STEP_BUDGET_BASE + STEP_BUDGET_PER_EVENT * n_events
    src_names = puml.event_names(case["src"])
    repeated = tuple(sorted({n for n in src_names if src_names.count(n) > 1}))
    res = learn.learn(pv, name, budget, watch_gates=case.get("watch_gates", False),
                      watch_loops=case.get("watch_loops", False), allow_dup=repeated)
    out: dict[str, Any] = {"status": "ok", "learn_ok": res["ok"], "steps": res["steps"],
                           "n_jobs": len(jobs), "n_events": n_events,
                           "reach": res.get("reach", {})}
    for k in ("gates", "loops", "exc_type", "exc", "where"):
        if k in res:
            out[k] = res[k]
    if res["ok"]:
        out["puml"] = res["puml"]
        src = case["src"] if case.get("check_extra", True) else None
        out["judge"] = learn.judge_output(res["puml"], name, jobs, src,
                                          k_extra=2, cap=case.get("extra_cap", 2000), rng=rng,
                                          check_extra=case.get("check_extra", True))
    return out
