"""Reference semantics of the activity-diagram dialect (DESIGN.md 2.2).

Independent of tel2puml: parser (lenient AST + strict well-formedness findings), frontier
semantics, executor (enumeration / sampling of the jobs of a definition) and matcher
(membership of a job DAG in the language of a definition).

AST
    seq   := [stmt, ...]
    stmt  := ("ev", name) | ("and"|"or"|"xor", [seq, ...]) | ("loop", seq)
           | ("break",) | ("kill",)
Job
    tuple of (label, frozenset(pred indices)); index in the tuple is the node id.
"""
from __future__ import annotations

import random
import re
from typing import Any, Callable, Iterable, Iterator

# ------------------------------------------------------------------------------------------
# parsing
# ------------------------------------------------------------------------------------------

_EVENT_RE = re.compile(r"^(#[A-Za-z0-9]+)?:(.*);\s*$")
_IF_RE = re.compile(r"^if\s*\((.*?)\)\s*(then\s*(\(.*\))?)?\s*$")
_ELSEIF_RE = re.compile(r"^else\s*if\s*\(.*?\)\s*(then\s*(\(.*\))?)?\s*$|^elseif\s*\(.*?\)\s*(then\s*(\(.*\))?)?\s*$")
_ELSE_RE = re.compile(r"^else(\s*\(.*\))?\s*$")
_SWITCH_RE = re.compile(r"^switch\s*\(.*\)\s*$")
_CASE_RE = re.compile(r"^case\s*\(.*\)\s*$")
_REPEAT_WHILE_RE = re.compile(r"^repeat\s*while(\s*\(.*\))?(\s*is\s*\(.*\))?(\s*not\s*\(.*\))?\s*$")

OPENERS = {"fork": "and", "split": "or", "switch": "xor", "if": "xor", "repeat": "loop"}
PLACEHOLDERS = ("|||START|||", "|||END|||", "|||DUMMY|||", "DUMMY_BREAK")
_LOOP_NAME_RE = re.compile(r"^LOOP_\d+$")


class Problem(dict):
    """A finding of the strict checker: {kind, line_no, line, stack, fatal}."""


def parse(text: str, expect_name: str | None = None) -> tuple[list | None, list[Problem], dict]:
    """Parse a diagram.  Returns (ast or None when nesting is broken, problems, info).

    `problems` holds every deviation from the strict dialect (C05); entries with
    fatal=True mean the block structure is broken and no AST can be given.
    info: {"names": [...event names in order...], "bcnt": bool, "partition": str|None,
           "group": str|None}
    """
    problems: list[Problem] = []
    info: dict[str, Any] = {"names": [], "bcnt": False, "partition": None, "group": None,
                            "empty_branches": 0, "single_branch_blocks": 0}
    lines = text.split("\n")

    def problem(kind: str, no: int, line: str, fatal: bool = False) -> None:
        problems.append(Problem(kind=kind, line_no=no, line=line.strip(),
                                stack=[f[0] for f in stack], fatal=fatal))

    # frame: [opener, kind, branches(list of seq), current seq, seen_case(bool)]
    root: list = []
    stack: list[list] = []
    cur: list = root
    state = "pre"  # pre -> startuml -> partition -> group -> body -> endgroup -> endpart -> end
    fatal = False

    def seq_terminated(seq: list) -> bool:
        return bool(seq) and seq[-1][0] in ("break", "kill")

    for no, raw in enumerate(lines, 1):
        line = raw.strip()
        if not line or line.startswith("'"):
            continue
        # ---- header / footer --------------------------------------------------------
        if line == "@startuml":
            if state != "pre":
                problem("header:@startuml repeated or misplaced", no, raw)
            state = "startuml"
            continue
        if line.startswith("partition "):
            m = re.match(r'^partition\s+"(.*)"\s*\{$', line)
            if not m or state != "startuml":
                problem("header:partition misplaced or malformed", no, raw)
            if m:
                info["partition"] = m.group(1)
            state = "partition"
            continue
        if line.startswith("group "):
            m = re.match(r'^group\s+"(.*)"$', line)
            if not m or state != "partition":
                problem("header:group misplaced or malformed", no, raw)
            if m:
                info["group"] = m.group(1)
            state = "body"
            continue
        if line == "end group":
            if state != "body":
                problem("footer:end group misplaced", no, raw)
            if stack:
                problem("nesting:end group with open block", no, raw, fatal=True)
                fatal = True
            state = "endgroup"
            continue
        if line == "}":
            if state != "endgroup":
                problem("footer:} misplaced", no, raw)
            state = "endpart"
            continue
        if line == "@enduml":
            if state != "endpart":
                problem("footer:@enduml misplaced", no, raw)
            state = "end"
            continue
        if state != "body":
            problem("statement outside group", no, raw)
            if state in ("endgroup", "endpart", "end"):
                continue
        if fatal:
            # block structure is lost; keep collecting the event names for the name check
            m = _EVENT_RE.match(line)
            if m:
                name = m.group(2)
                if ",BCNT," in name or ",LCNT," in name or name.endswith(",BCNT"):
                    info["bcnt"] = True
                    name = name.split(",")[0]
                info["names"].append(name)
            continue
        # ---- statements --------------------------------------------------------------
        if seq_terminated(cur) and line not in (
            "fork again", "split again", "end fork", "end split", "endswitch", "endif",
        ) and not _CASE_RE.match(line) and not _ELSE_RE.match(line) \
                and not _ELSEIF_RE.match(line) and not _REPEAT_WHILE_RE.match(line):
            problem("statement after break/detach in the same sequence", no, raw)
        if stack and stack[-1][0] == "switch" and not stack[-1][4] and not _CASE_RE.match(line):
            problem("switch not immediately followed by case", no, raw)
        m = _EVENT_RE.match(line)
        if m:
            name = m.group(2)
            if ",BCNT," in name or ",LCNT," in name or name.endswith(",BCNT"):
                info["bcnt"] = True
                name = name.split(",")[0]
            info["names"].append(name)
            cur.append(("ev", name))
            continue
        if line in ("fork", "split") or _SWITCH_RE.match(line) or _IF_RE.match(line) \
                or line == "repeat":
            opener = line.split()[0].split("(")[0]
            frame = [opener, OPENERS[opener], [], None, False]
            stack.append(frame)
            frame[3] = cur  # parent sequence
            cur = []
            if opener == "switch":
                # branches start at `case`
                pass
            continue
        if line in ("fork again", "split again"):
            want = "fork" if line == "fork again" else "split"
            if not stack or stack[-1][0] != want:
                problem(f"nesting:{line} outside its own {want}", no, raw, fatal=True)
                fatal = True
                continue
            stack[-1][2].append(cur)
            cur = []
            continue
        if _CASE_RE.match(line):
            if not stack or stack[-1][0] != "switch":
                problem("nesting:case outside its own switch", no, raw, fatal=True)
                fatal = True
                continue
            if stack[-1][4]:
                stack[-1][2].append(cur)
            elif cur:
                problem("statement between switch and first case", no, raw)
            stack[-1][4] = True
            cur = []
            continue
        if _ELSEIF_RE.match(line) or _ELSE_RE.match(line):
            if not stack or stack[-1][0] != "if":
                problem("nesting:else outside its own if", no, raw, fatal=True)
                fatal = True
                continue
            stack[-1][2].append(cur)
            if _ELSE_RE.match(line):
                stack[-1][4] = True  # has else
            cur = []
            continue
        closer = None
        if line == "end fork" or line == "end merge":
            closer = "fork"
        elif line == "end split":
            closer = "split"
        elif line == "endswitch":
            closer = "switch"
        elif line == "endif":
            closer = "if"
        elif _REPEAT_WHILE_RE.match(line):
            closer = "repeat"
        if closer:
            if not stack or stack[-1][0] != closer:
                problem(f"nesting:{line} does not close the innermost open block", no, raw,
                        fatal=True)
                fatal = True
                continue
            frame = stack.pop()
            opener, kind, branches, parent, flag = frame
            if opener == "repeat":
                node = ("loop", cur)
            else:
                if opener == "switch" and not flag:
                    problem("switch without case", no, raw)
                    branches = [cur]
                else:
                    branches = branches + [cur]
                if opener == "if" and not flag:
                    branches = branches + [[]]  # implicit empty else
                node = (kind, branches)
                info["empty_branches"] += sum(1 for b in branches if not b)
                if len(branches) < 2:
                    info["single_branch_blocks"] += 1
            cur = parent
            cur.append(node)
            continue
        if line == "break":
            if not any(f[0] == "repeat" for f in stack):
                problem("break outside any repeat", no, raw)
            cur.append(("break",))
            continue
        if line in ("detach", "kill"):
            cur.append(("kill",))
            continue
        problem("unknown statement", no, raw)
    if stack and not fatal:
        problems.append(Problem(kind="nesting:block left open at end of diagram",
                                line_no=len(lines), line="", stack=[f[0] for f in stack],
                                fatal=True))
        fatal = True
    if state != "end":
        problems.append(Problem(kind="footer:diagram not terminated (state=%s)" % state,
                                line_no=len(lines), line="", stack=[], fatal=False))
    if expect_name is not None:
        if info["partition"] != expect_name or info["group"] != expect_name:
            problems.append(Problem(kind="header:name differs from requested name",
                                    line_no=0, line=f'{info["partition"]!r}/{info["group"]!r}',
                                    stack=[], fatal=False))
    return (None if fatal else root), problems, info


def leaked_placeholders(names: Iterable[str], input_types: Iterable[str]) -> list[str]:
    allowed = set(input_types)
    out = []
    for n in names:
        if n in allowed:
            continue
        if any(p in n for p in PLACEHOLDERS) or _LOOP_NAME_RE.match(n):
            out.append(n)
    return out


# ------------------------------------------------------------------------------------------
# AST helpers
# ------------------------------------------------------------------------------------------


def to_text(ast: list, name: str = "job", xor_style: str = "switch") -> str:
    out = ["@startuml", f'partition "{name}" {{', f'group "{name}"']

    def emit(seq: list, ind: int) -> None:
        pad = "    " * ind
        for st in seq:
            k = st[0]
            if k == "ev":
                out.append(f"{pad}:{st[1]};")
            elif k == "break":
                out.append(f"{pad}break")
            elif k == "kill":
                out.append(f"{pad}detach")
            elif k == "loop":
                out.append(f"{pad}repeat")
                emit(st[1], ind + 1)
                out.append(f"{pad}repeat while")
            elif k == "and" or k == "or":
                o, a, e = (("fork", "fork again", "end fork") if k == "and"
                           else ("split", "split again", "end split"))
                out.append(pad + o)
                for i, b in enumerate(st[1]):
                    if i:
                        out.append(pad + a)
                    emit(b, ind + 1)
                out.append(pad + e)
            elif k == "xor":
                out.append(pad + "switch (XOR)")
                for b in st[1]:
                    out.append(pad + 'case ("")')
                    emit(b, ind + 1)
                out.append(pad + "endswitch")
    emit(ast, 1)
    out += ["end group", "}", "@enduml"]
    return "\n".join(out)


def event_names(ast: list) -> list[str]:
    res: list[str] = []

    def walk(seq: list) -> None:
        for st in seq:
            if st[0] == "ev":
                res.append(st[1])
            elif st[0] in ("and", "or", "xor"):
                for b in st[1]:
                    walk(b)
            elif st[0] == "loop":
                walk(st[1])
    walk(ast)
    return res


def names_in_loops(ast: list) -> set[str]:
    """Event names that occur inside some loop body."""
    out: set[str] = set()

    def walk(seq: list, inside: bool) -> None:
        for st in seq:
            if st[0] == "ev":
                if inside:
                    out.add(st[1])
            elif st[0] in ("and", "or", "xor"):
                for b in st[1]:
                    walk(b, inside)
            elif st[0] == "loop":
                walk(st[1], True)
    walk(ast, False)
    return out


def normal_form(ast: list) -> Any:
    """AST with branches recursively sorted; equal normal forms => equal languages."""
    def nf_seq(seq: list) -> tuple:
        return tuple(nf(st) for st in seq)

    def nf(st: tuple) -> tuple:
        if st[0] in ("and", "or", "xor"):
            return (st[0], tuple(sorted((nf_seq(b) for b in st[1]), key=repr)))
        if st[0] == "loop":
            return ("loop", nf_seq(st[1]))
        return tuple(st)
    return nf_seq(ast)


def has_kind(ast: list, kinds: tuple[str, ...]) -> bool:
    for st in ast:
        if st[0] in kinds:
            return True
        if st[0] in ("and", "or", "xor"):
            if any(has_kind(b, kinds) for b in st[1]):
                return True
        elif st[0] == "loop":
            if has_kind(st[1], kinds):
                return True
    return False


def depth(ast: list) -> int:
    d = 0
    for st in ast:
        if st[0] in ("and", "or", "xor"):
            d = max(d, 1 + max((depth(b) for b in st[1]), default=0))
        elif st[0] == "loop":
            d = max(d, 1 + depth(st[1]))
    return d


# ------------------------------------------------------------------------------------------
# frontier semantics: one interpreter, pluggable choice + event step
# ------------------------------------------------------------------------------------------


class Abort(Exception):
    """Current run cannot be completed (match failure / pruned)."""


class TooMany(Exception):
    pass


NORMAL, BREAK, DEAD = "normal", "break", "dead"


class _Ctx:
    """Choice replay context.  choose(n) follows `prefix`, then takes 0 (or random)."""

    def __init__(self, prefix: list[int], rng: random.Random | None = None) -> None:
        self.prefix = prefix
        self.trace: list[list[int]] = []
        self.rng = rng

    def choose(self, n: int) -> int:
        if n <= 1:
            return 0
        pos = len(self.trace)
        if pos < len(self.prefix):
            c = self.prefix[pos]
        elif self.rng is not None:
            c = self.rng.randrange(n)
        else:
            c = 0
        self.trace.append([c, n])
        return c


class _Gen(_Ctx):
    """Generation: event step creates a node."""

    def __init__(self, prefix: list[int], k: int, rng: random.Random | None = None) -> None:
        super().__init__(prefix, rng)
        self.k = k
        self.nodes: list[tuple[str, frozenset]] = []

    def event(self, label: str, frontier: frozenset) -> int:
        self.nodes.append((label, frontier))
        return len(self.nodes) - 1

    def progress(self) -> int:
        return len(self.nodes)

    def loop_may_continue(self, iterations: int, progressed: bool) -> bool:
        return iterations < self.k


class _Match(_Ctx):
    """Matching: event step binds an unused job node with that label and exactly that
    predecessor set."""

    def __init__(self, prefix: list[int], job: tuple, index: dict) -> None:
        super().__init__(prefix)
        self.job = job
        self.index = index
        self.used: set[int] = set()

    def event(self, label: str, frontier: frozenset) -> int:
        cands = [i for i in self.index.get((label, frontier), ()) if i not in self.used]
        if not cands:
            raise Abort()
        c = cands[self.choose(len(cands))]
        self.used.add(c)
        return c

    def progress(self) -> int:
        return len(self.used)

    def loop_may_continue(self, iterations: int, progressed: bool) -> bool:
        return progressed and len(self.used) < len(self.job)


def _subsets(n: int) -> list[tuple[int, ...]]:
    """Non-empty subsets of range(n), the full set first."""
    res = []
    for mask in range((1 << n) - 1, 0, -1):
        res.append(tuple(i for i in range(n) if mask >> i & 1))
    return res


_SUBSETS = {n: _subsets(n) for n in range(0, 7)}


def _run_seq(seq: list, frontier: frozenset, ctx: Any) -> tuple[str, frozenset]:
    for st in seq:
        k = st[0]
        if k == "ev":
            frontier = frozenset((ctx.event(st[1], frontier),))
        elif k == "break":
            return BREAK, frontier
        elif k == "kill":
            return DEAD, frozenset()
        elif k == "xor":
            b = st[1][ctx.choose(len(st[1]))]
            status, frontier = _run_seq(b, frontier, ctx)
            if status != NORMAL:
                return status, frontier
        elif k in ("and", "or"):
            branches = st[1]
            if k == "or":
                subs = _SUBSETS.get(len(branches)) or _subsets(len(branches))
                chosen = [branches[i] for i in subs[ctx.choose(len(subs))]]
            else:
                chosen = branches
            exits: set = set()
            alive = False
            broke = False
            for b in chosen:
                status, f = _run_seq(b, frontier, ctx)
                if status == NORMAL:
                    alive = True
                    exits |= f
                elif status == BREAK:
                    broke = True
                    exits |= f
            if broke:
                return BREAK, frozenset(exits)
            if not alive:
                return DEAD, frozenset()
            frontier = frozenset(exits)
        elif k == "loop":
            iterations = 0
            while True:
                before = ctx.progress()
                status, frontier = _run_seq(st[1], frontier, ctx)
                iterations += 1
                if status == BREAK:
                    break
                if status == DEAD:
                    return DEAD, frozenset()
                if not ctx.loop_may_continue(iterations, ctx.progress() > before):
                    break
                if ctx.choose(2) == 0:
                    break
        else:
            raise ValueError(f"unknown statement {st!r}")
    return NORMAL, frontier


def _next_prefix(trace: list[list[int]]) -> list[int] | None:
    while trace and trace[-1][0] + 1 >= trace[-1][1]:
        trace.pop()
    if not trace:
        return None
    trace[-1][0] += 1
    return [c for c, _ in trace]


def job_key(job: tuple) -> tuple:
    """Canonical key: sorted multiset of recursive history hashes."""
    memo: dict[int, int] = {}

    def h(i: int) -> int:
        if i not in memo:
            label, preds = job[i]
            memo[i] = hash((label, tuple(sorted(h(p) for p in preds))))
        return memo[i]
    import sys
    if len(job) > 500:
        sys.setrecursionlimit(max(sys.getrecursionlimit(), 10000))
    return tuple(sorted(h(i) for i in range(len(job))))


def enumerate_jobs(ast: list, k: int = 2, cap: int = 5000, max_runs: int | None = None
                   ) -> list[tuple]:
    """All distinct jobs of `ast` with each loop run 1..k times.  TooMany above cap."""
    seen: dict[tuple, tuple] = {}
    prefix: list[int] | None = []
    runs = 0
    while prefix is not None:
        ctx = _Gen(prefix, k)
        status, _ = _run_seq(ast, frozenset(), ctx)
        runs += 1
        if status != BREAK and ctx.nodes:
            job = tuple(ctx.nodes)
            seen.setdefault(job_key(job), job)
            if len(seen) > cap:
                raise TooMany(f"more than {cap} jobs")
        if max_runs is not None and runs > max_runs:
            raise TooMany(f"more than {max_runs} runs")
        prefix = _next_prefix(ctx.trace)
    return list(seen.values())


def sample_jobs(ast: list, k: int, n: int, rng: random.Random) -> list[tuple]:
    seen: dict[tuple, tuple] = {}
    for _ in range(n):
        ctx = _Gen([], k, rng)
        status, _ = _run_seq(ast, frozenset(), ctx)
        if status != BREAK and ctx.nodes:
            job = tuple(ctx.nodes)
            seen.setdefault(job_key(job), job)
    return list(seen.values())


def jobs_of(ast: list, k: int, cap: int, rng: random.Random | None = None
            ) -> tuple[list[tuple], bool]:
    """(jobs, complete?) - enumerated when <= cap, else `cap` seeded random walks."""
    try:
        return enumerate_jobs(ast, k, cap, max_runs=cap * 20), True
    except TooMany:
        return sample_jobs(ast, k, cap, rng or random.Random(0)), False


def accepts(ast: list, job: tuple, max_runs: int = 200000) -> bool | None:
    """Is `job` an execution of `ast`?  None when the search budget is exhausted."""
    index: dict[tuple, list[int]] = {}
    for i, (label, preds) in enumerate(job):
        index.setdefault((label, frozenset(preds)), []).append(i)
    prefix: list[int] | None = []
    runs = 0
    while prefix is not None:
        ctx = _Match(prefix, job, index)
        try:
            status, _ = _run_seq(ast, frozenset(), ctx)
            if status != BREAK and len(ctx.used) == len(job):
                return True
        except Abort:
            pass
        runs += 1
        if runs > max_runs:
            return None
        prefix = _next_prefix(ctx.trace)
    return False


# ------------------------------------------------------------------------------------------
# language comparison
# ------------------------------------------------------------------------------------------


def included(a: list, b: list, k: int = 2, cap: int = 5000, rng: random.Random | None = None
             ) -> dict:
    """Bounded inclusion L_k(a) subset L(b).  {ok, tested, complete, witness, undecided}."""
    jobs, complete = jobs_of(a, k, cap, rng)
    undecided = 0
    for job in jobs:
        r = accepts(b, job)
        if r is None:
            undecided += 1
        elif not r:
            return {"ok": False, "tested": len(jobs), "complete": complete,
                    "witness": job_to_json(job), "undecided": undecided}
    return {"ok": True, "tested": len(jobs), "complete": complete, "witness": None,
            "undecided": undecided}


def equivalent(a: list, b: list, k: int = 2, cap: int = 5000, rng: random.Random | None = None
               ) -> dict:
    if normal_form(a) == normal_form(b):
        return {"ok": True, "how": "normal-form", "tested": 0}
    if set(event_names(a)) != set(event_names(b)):
        return {"ok": False, "how": "event-names",
                "only_a": sorted(set(event_names(a)) - set(event_names(b))),
                "only_b": sorted(set(event_names(b)) - set(event_names(a)))}
    ab = included(a, b, k, cap, rng)
    if not ab["ok"]:
        return {"ok": False, "how": "a-not-in-b", "witness": ab["witness"]}
    ba = included(b, a, k, cap, rng)
    if not ba["ok"]:
        return {"ok": False, "how": "b-not-in-a", "witness": ba["witness"]}
    return {"ok": True, "how": "language", "tested": ab["tested"] + ba["tested"],
            "undecided": ab["undecided"] + ba["undecided"]}


# ------------------------------------------------------------------------------------------
# jobs <-> PV events
# ------------------------------------------------------------------------------------------


def job_to_json(job: tuple) -> list:
    return [[label, sorted(preds)] for label, preds in job]


def job_from_json(data: list) -> tuple:
    return tuple((label, frozenset(preds)) for label, preds in data)


def job_to_pv(job: tuple, job_id: str, job_name: str, id_of: Callable[[int], str] | None = None,
              t0: int = 0) -> list[dict]:
    """PV events of a job; timestamps follow a topological order (index order is one)."""
    from datetime import datetime, timedelta, timezone
    if id_of is None:
        def id_of(i: int) -> str:  # type: ignore[misc]
            return f"{job_id}-e{i}"
    base = datetime(2024, 1, 1, tzinfo=timezone.utc) + timedelta(seconds=t0)
    out = []
    for i, (label, preds) in enumerate(job):
        ev = {
            "jobId": job_id,
            "jobName": job_name,
            "eventId": id_of(i),
            "eventType": label,
            "timestamp": (base + timedelta(seconds=i)).strftime("%Y-%m-%dT%H:%M:%S.%fZ"),
            "applicationName": "verif",
        }
        if preds:
            ev["previousEventIds"] = [id_of(p) for p in sorted(preds)]
        out.append(ev)
    return out


def pv_to_job(events: list[dict]) -> tuple:
    """Job DAG of a PV event list (any order)."""
    ids = {e["eventId"]: i for i, e in enumerate(events)}
    job = []
    for e in events:
        prev = e.get("previousEventIds", []) or []
        if isinstance(prev, str):
            prev = [prev]
        job.append((e["eventType"], frozenset(ids[p] for p in prev)))
    return tuple(job)


def evidence_model(jobs: Iterable[tuple]) -> dict:
    """Per event type the family of successor multisets and predecessor multisets -
    exactly the information the learner accumulates (independent re-computation)."""
    out: dict[str, set] = {}
    inc: dict[str, set] = {}
    for job in jobs:
        succ: dict[int, list[str]] = {i: [] for i in range(len(job))}
        for i, (label, preds) in enumerate(job):
            for p in preds:
                succ[p].append(label)
        for i, (label, preds) in enumerate(job):
            out.setdefault(label, set())
            inc.setdefault(label, set())
            if succ[i]:
                out[label].add(tuple(sorted(succ[i])))
            if preds:
                inc[label].add(tuple(sorted(job[p][0] for p in preds)))
    return {"out": {k: sorted(v) for k, v in sorted(out.items())},
            "in": {k: sorted(v) for k, v in sorted(inc.items())}}
