"""Worker-side drivers of the real learner with in-situ monitors (DESIGN.md 2.6).

Imported only inside worker processes (after vlib.worker installed the seeded uuid4)."""
from __future__ import annotations

import os
import sys
from typing import Any

from . import gates, puml

REPO = os.environ.get("VERIF_REPO", "/repo")
_TEL = os.path.join(REPO, "tel2puml") + os.sep
TOOL_ID = 3  # sys.monitoring tool slot


class StepBudgetExceeded(Exception):
    pass


class StepCounter:
    """Counts PY_START events of code objects under <repo>/tel2puml (logical time).
    Also keeps reach counters per function.  Raises StepBudgetExceeded past the budget."""

    def __init__(self) -> None:
        self.steps = 0
        self.budget = 10**12
        self.reach: dict[str, int] = {}
        self.active = False
        mon = sys.monitoring
        try:
            mon.use_tool_id(TOOL_ID, "verif-steps")
        except ValueError:
            pass
        mon.register_callback(TOOL_ID, mon.events.PY_START, self._on_start)
        mon.set_events(TOOL_ID, mon.events.PY_START)

    def _on_start(self, code, _offset):  # noqa: ANN001
        fn = code.co_filename
        if not fn.startswith(_TEL):
            return sys.monitoring.DISABLE
        if not self.active:
            return None
        self.steps += 1
        key = fn[len(_TEL):-3] + ":" + code.co_name
        self.reach[key] = self.reach.get(key, 0) + 1
        if self.steps > self.budget:
            self.active = False
            raise StepBudgetExceeded(f"more than {self.budget} function entries in tel2puml")
        return None

    def start(self, budget: int) -> None:
        self.steps = 0
        self.budget = budget
        self.reach = {}
        self.active = True

    def stop(self) -> int:
        self.active = False
        return self.steps


_COUNTER: StepCounter | None = None


def counter() -> StepCounter:
    global _COUNTER
    if _COUNTER is None:
        _COUNTER = StepCounter()
    return _COUNTER


# ------------------------------------------------------------------------------------------
# monitors on real functions (wrapped once per process; references bound by `from m import f`
# in callers are rebound too)
# ------------------------------------------------------------------------------------------

_MON: dict[str, Any] = {"gate_calls": [], "loops": [], "installed": False}


def install_monitors() -> None:
    if _MON["installed"]:
        return
    _MON["installed"] = True
    import tel2puml.logic_detection as ld
    import tel2puml.events as ev
    import tel2puml.pv_to_puml.pv_to_puml as p2p
    import tel2puml.loop_detection.detect_loops as dl

    real_clg = ld.calculate_logic_gates

    def monitored_clg(event_sets):  # noqa: ANN001
        res = real_clg(event_sets)
        if _MON.get("watch_gates"):
            try:
                fam = [dict(es) for es in event_sets]
                _MON["gate_calls"].append((fam, res))
            except Exception:
                pass
        return res
    ld.calculate_logic_gates = monitored_clg
    ev.calculate_logic_gates = monitored_clg

    real_dl = dl.detect_loops
    depth = {"n": 0}

    def monitored_dl(graph):  # noqa: ANN001
        top = depth["n"] == 0
        if top and _MON.get("watch_loops"):
            snap = snapshot_graph(graph)
        depth["n"] += 1
        try:
            res = real_dl(graph)
        finally:
            depth["n"] -= 1
        if top and _MON.get("watch_loops"):
            _MON["loops"].append((snap, res))
        return res
    dl.detect_loops = monitored_dl
    p2p.detect_loops = monitored_dl


def snapshot_graph(graph) -> dict:  # noqa: ANN001
    return {"nodes": sorted(n.event_type for n in graph.nodes),
            "edges": sorted((a.event_type, b.event_type) for a, b in graph.edges)}


def gate_soundness(calls: list) -> dict:
    """C06 in-situ: every observed successor set admitted by the tree returned for it.
    Sets with counts > 1 are counted and skipped (BRANCH semantics not part of C06)."""
    res = {"calls": 0, "checked": 0, "skipped_counts": 0, "skipped_operator": 0, "unsound": []}
    for fam, tree in calls:
        res["calls"] += 1
        if any(c > 1 for es in fam for c in es.values()):
            res["skipped_counts"] += 1
            continue
        try:
            adm = gates.admitted(tree)
        except gates.UnknownOperator:
            res["skipped_operator"] += 1
            continue
        res["checked"] += 1
        observed = {frozenset(es) for es in fam}
        missing = observed - adm
        if missing and len(res["unsound"]) < 3:
            res["unsound"].append({"family": sorted(sorted(s) for s in observed),
                                   "inferred": gates.show_pt(tree),
                                   "missing": sorted(sorted(s) for s in missing)})
    return res


DUMMIES = ("|||START|||", "|||END|||", "|||DUMMY|||")


def _is_dummy(name: str) -> bool:
    return name in DUMMIES or name.startswith("DUMMY_BREAK") or name.startswith("LOOP")


def loop_nesting_report(snap: dict, result_graph, allow_dup=()) -> dict:  # noqa: ANN001
    """C07 invariants over the graph returned by the top-level detect_loops."""
    import networkx as nx
    from tel2puml.loop_detection.loop_types import LoopEvent

    problems: list[str] = []
    stats = {"loops": 0, "max_depth": 0, "break_events": 0, "fork_in_loop": 0}
    occurrences: dict[str, int] = {}
    member_of_top_loop: dict[str, int] = {}

    def real_types_in(graph, acc: set) -> None:  # noqa: ANN001
        for n in graph.nodes:
            if isinstance(n, LoopEvent):
                real_types_in(n.sub_graph, acc)
            elif not _is_dummy(n.event_type):
                acc.add(n.event_type)

    def check_graph(graph, where: str, depth: int) -> None:  # noqa: ANN001
        stats["max_depth"] = max(stats["max_depth"], depth)
        if graph.number_of_nodes() == 0:
            return
        if not nx.is_directed_acyclic_graph(graph):
            cyc = nx.find_cycle(graph)
            problems.append(f"cycle in {where}: " + "->".join(str(a) for a, _ in cyc))
        roots = [n for n in graph.nodes if graph.in_degree(n) == 0]
        if len(roots) != 1:
            problems.append(f"{len(roots)} entry nodes in {where}: "
                            + ",".join(sorted(str(r) for r in roots)))
        else:
            reach = nx.descendants(graph, roots[0]) | {roots[0]}
            if len(reach) != graph.number_of_nodes():
                missing = sorted(str(n) for n in set(graph.nodes) - reach)
                problems.append(f"nodes unreachable from the entry in {where}: {missing}")
        for n in graph.nodes:
            if isinstance(n, LoopEvent):
                stats["loops"] += 1
                try:
                    stats["break_events"] += len(n.break_uids)
                except AttributeError:
                    pass
                if any(graph_out > 1 for graph_out in
                       (n.sub_graph.out_degree(m) for m in n.sub_graph.nodes
                        if not _is_dummy(m.event_type))):
                    stats["fork_in_loop"] += 1
                check_graph(n.sub_graph, f"body of {n.event_type} (depth {depth + 1})", depth + 1)
            elif not _is_dummy(n.event_type):
                occurrences[n.event_type] = occurrences.get(n.event_type, 0) + 1

    check_graph(result_graph, "top-level graph", 0)
    input_types = {t for t in snap["nodes"] if not _is_dummy(t)}
    lost = sorted(input_types - set(occurrences))
    dup = sorted(t for t, c in occurrences.items() if c > 1)
    alien = sorted(set(occurrences) - input_types)
    if lost:
        problems.append(f"event types lost by loop extraction: {lost}")
    # a definition that itself uses an event name in several places (some corpus files)
    # legitimately yields that type at several levels: excused by the caller via allow_dup
    dup = [t for t in dup if t not in allow_dup]
    if dup:
        problems.append(f"event types duplicated across the nesting: {dup}")
    if alien:
        problems.append(f"event types not in the input graph: {alien}")
    # every cyclic dependency of the input lies inside one top-level loop's nesting
    idx = 0
    for n in result_graph.nodes:
        if isinstance(n, LoopEvent):
            acc: set = set()
            real_types_in(n.sub_graph, acc)
            for t in acc:
                member_of_top_loop[t] = idx
            idx += 1
    g = nx.DiGraph()
    g.add_nodes_from(snap["nodes"])
    g.add_edges_from(snap["edges"])
    for comp in nx.strongly_connected_components(g):
        cyclic = len(comp) > 1 or any(g.has_edge(x, x) for x in comp)
        if not cyclic:
            continue
        owners = {member_of_top_loop.get(t, None) for t in comp if not _is_dummy(t)}
        if None in owners or len(owners) != 1:
            problems.append("cyclic dependency not inside one loop body: "
                            + ",".join(sorted(comp)))
    stats["input_sccs_cyclic"] = sum(
        1 for comp in nx.strongly_connected_components(g)
        if len(comp) > 1 or any(g.has_edge(x, x) for x in comp))
    return {"problems": problems, "stats": stats}


# ------------------------------------------------------------------------------------------
# drivers
# ------------------------------------------------------------------------------------------


def learn(pv_jobs: list[list[dict]], name: str, budget: int = 50_000_000,
          events: dict | None = None, watch_gates: bool = False, watch_loops: bool = False,
          allow_dup: tuple = ()) -> dict:
    """Run the real pv_to_puml_string.  Returns {ok, puml|exc, steps, reach, ...}."""
    from tel2puml.pv_to_puml.pv_to_puml import pv_to_puml_string
    install_monitors()
    _MON["watch_gates"], _MON["watch_loops"] = watch_gates, watch_loops
    _MON["gate_calls"], _MON["loops"] = [], []
    c = counter()
    c.start(budget)
    out: dict[str, Any] = {}
    try:
        text = pv_to_puml_string(pv_jobs, name, events=events) if events is not None \
            else pv_to_puml_string(pv_jobs, name)
        out = {"ok": True, "puml": text}
    except StepBudgetExceeded as exc:
        out = {"ok": False, "exc_type": "StepBudgetExceeded", "exc": str(exc)}
    except RecursionError as exc:
        out = {"ok": False, "exc_type": "RecursionError", "exc": str(exc)[:200]}
    except Exception as exc:
        import traceback
        tb = traceback.extract_tb(exc.__traceback__)
        where = next((f"{os.path.basename(f.filename)}:{f.name}" for f in reversed(tb)
                      if f.filename.startswith(_TEL)), "?")
        out = {"ok": False, "exc_type": type(exc).__name__, "exc": str(exc)[:300],
               "where": where}
    finally:
        out["steps"] = c.stop()
        out["reach"] = dict(c.reach)
        _MON["watch_gates"] = _MON["watch_loops"] = False
    if watch_gates:
        out["gates"] = gate_soundness(_MON["gate_calls"])
    if watch_loops:
        out["loops"] = [loop_nesting_report(s, g, allow_dup) for s, g in _MON["loops"]]
    _MON["gate_calls"], _MON["loops"] = [], []
    return out


def judge_output(text: str, name: str, jobs: list[tuple], source_ast: list | None,
                 k_extra: int = 2, cap: int = 3000, rng=None, check_extra: bool = True) -> dict:
    """All output-side measurements used by C01/C02/C05."""
    input_types = sorted({lab for job in jobs for lab, _ in job})
    ast, problems, info = puml.parse(text, expect_name=name)
    res: dict[str, Any] = {
        "problems": [dict(p) for p in problems][:6],
        "bcnt": info["bcnt"],
        "names": sorted(set(info["names"])),
        "missing_names": sorted(set(input_types) - set(info["names"])),
        "extra_names": sorted(set(info["names"]) - set(input_types)),
        "leaked": puml.leaked_placeholders(info["names"], input_types),
        "parsed": ast is not None,
        "empty_branches": info["empty_branches"],
    }
    if ast is None:
        return res
    rejected = []
    undecided = 0
    for i, job in enumerate(jobs):
        r = puml.accepts(ast, job)
        if r is None:
            undecided += 1
        elif not r:
            rejected.append(i)
    res["rejected_jobs"] = rejected
    res["undecided"] = undecided
    # signature of the recorded "failed merge" (KF-S2neq): the event that should join the
    # branches is copied into them, i.e. an event type occurs more often in the diagram than in
    # any input job (mostly with the copies ending in detach)
    from collections import Counter
    maxc: Counter = Counter()
    for job in jobs:
        for k, v in Counter(lab for lab, _ in job).items():
            maxc[k] = max(maxc[k], v)
    dc = Counter(info["names"])
    res["failed_merge_signature"] = bool(any(dc[k] > maxc.get(k, 0) for k in dc))
    res["out_normal_form"] = repr(puml.normal_form(ast))
    if source_ast is not None and check_extra and not info["bcnt"]:
        if puml.normal_form(ast) == puml.normal_form(source_ast):
            res["extra"] = {"ok": True, "how": "normal-form", "tested": 0, "complete": True}
        else:
            inc = puml.included(ast, source_ast, k_extra, cap, rng)
            res["extra"] = {"ok": inc["ok"], "how": "language", "tested": inc["tested"],
                            "complete": inc["complete"], "witness": inc["witness"],
                            "undecided": inc["undecided"]}
    return res
