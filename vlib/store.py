"""Reference store model + generators for C09-C12/C15 (DESIGN.md 3.9-3.12), and the
worker-side harness around the real SQLDataHolder.  The model part imports nothing from
tel2puml."""
from __future__ import annotations

import random
from typing import Any, Iterable

MIN = 60 * 10**9  # one minute in ns

# ------------------------------------------------------------------------------------------
# generators
# ------------------------------------------------------------------------------------------


def rand_tree(rng: random.Random, n: int, types: list[str], deep: bool = False) -> list[dict]:
    """Spans of one trace as dicts without ids/times: [{idx, parent_idx, type}]."""
    spans = [{"idx": 0, "parent_idx": None, "type": rng.choice(types)}]
    for i in range(1, n):
        p = i - 1 if deep and rng.random() < 0.7 else rng.randrange(i)
        spans.append({"idx": i, "parent_idx": p, "type": rng.choice(types)})
    return spans


def all_small_shapes(max_nodes: int, types: list[str]) -> list[list[dict]]:
    """Every labelled rooted tree with <= max_nodes nodes over `types` (increasing parent
    arrays x type assignments) - many are isomorphic on purpose."""
    import itertools
    out = []
    for n in range(1, max_nodes + 1):
        for parents in itertools.product(*[range(i) for i in range(1, n)]):
            for ts in itertools.product(types, repeat=n):
                spans = [{"idx": 0, "parent_idx": None, "type": ts[0]}]
                for i, p in enumerate(parents, 1):
                    spans.append({"idx": i, "parent_idx": p, "type": ts[i]})
                out.append(spans)
    return out


ID_SEPARATORS = [",", " ", "|", ";", "'", '"', "%", "_", "/", "\\", ":", "\u00e9", "*", "?", ", "]


def materialise(tree: list[dict], job_id: str, name: str, t0: int, rng: random.Random,
                span_len: int = 10**6, sibling_perm: bool = False, id_sep: str = ".") -> list[dict]:
    """OTelEvent field dicts for a tree; event ids are unique per job_id.  id_sep: the
    character(s) between trace id and span index in the span ids (span ids are opaque
    strings: separators, quotes and SQL wildcards are legal in them)."""
    order = list(range(len(tree)))
    if sibling_perm:
        rng.shuffle(order)
    out = []
    for i in order:
        s = tree[i]
        st = t0 + s["idx"] * span_len
        out.append({
            "job_name": name, "job_id": job_id, "event_type": s["type"],
            "event_id": f"{job_id}{id_sep}{s['idx']}", "start_timestamp": st,
            "end_timestamp": st + span_len // 2 + rng.randrange(span_len),
            "application_name": "app",
            "parent_event_id": None if s["parent_idx"] is None
            else f"{job_id}{id_sep}{s['parent_idx']}",
        })
    return out


def shape_of(spans: Iterable[dict]) -> Any:
    """AHU canonical form of one trace: (type, sorted child shapes)."""
    spans = list(spans)
    kids: dict[str | None, list[dict]] = {}
    ids = {s["event_id"] for s in spans}
    for s in spans:
        kids.setdefault(s["parent_event_id"], []).append(s)
    roots = [s for s in spans if s["parent_event_id"] is None]

    def sh(s: dict) -> tuple:
        return (s["event_type"], tuple(sorted(sh(c) for c in kids.get(s["event_id"], []))))
    return tuple(sorted(sh(r) for r in roots)), len(spans) - len(ids)


def gen_store(rng: random.Random, n_traces: int, names: list[str], types: list[str],
              max_spans: int = 8, hostile: bool = True, span_minutes: int = 30,
              empty_parent: bool = False) -> dict:
    """A store description: traces with kinds complete / dangling-{leaf,middle,root} /
    mixed-names, spread over a time range so that window trimming bites."""
    traces = []
    total = span_minutes * MIN
    base = 1_700_000_000 * 10**9
    for t in range(n_traces):
        n = rng.randint(1, max_spans)
        tree = rand_tree(rng, n, types, deep=rng.random() < 0.3)
        name = rng.choice(names)
        jid = f"tr{t}"
        if t % 2 and rng.random() < 0.15:
            # trace (and span) ids that differ from the previous trace's only in letter case
            jid = f"TR{t - 1}"
        pos = rng.random()
        t0 = base + int(pos * total)
        span_len = rng.choice([10**6, 10**9, 30 * 10**9, 2 * MIN])
        sep = "." if rng.random() < 0.75 else rng.choice(ID_SEPARATORS)
        spans = materialise(tree, jid, name, t0, rng, span_len, id_sep=sep)
        kind = "complete"
        if hostile and n >= 2:
            r = rng.random()
            if r < 0.12:
                kind = "dangling-leaf"
                v = rng.choice([s for s in spans if s["parent_event_id"] is not None])
                # the absent span: one of this trace's own, or one that several broken traces
                # refer to (e.g. a span of a service whose export never arrived)
                v["parent_event_id"] = f"{jid}.missing" if rng.random() < 0.6 else "lost-span"
            elif r < 0.2 and n >= 3:
                kind = "dangling-middle"
                cand = [s for s in spans if s["parent_event_id"] is not None
                        and any(c["parent_event_id"] == s["event_id"] for c in spans)]
                if cand:
                    victim = rng.choice(cand)
                    spans = [s for s in spans if s is not victim]
                else:
                    kind = "complete"
            elif r < 0.27:
                kind = "dangling-root"
                root = next(s for s in spans if s["parent_event_id"] is None)
                spans = [s for s in spans if s is not root]
            elif r < 0.4:
                kind = "mixed-names"
            # inconsistent workflow names combine with every structural kind
            if kind == "mixed-names" or (kind != "complete" and rng.random() < 0.4):
                if kind != "mixed-names":
                    kind += "+mixed-names"
                others = [x for x in names if x != name] or [name + "_alt"]
                for s in spans:
                    if s["parent_event_id"] is not None and rng.random() < 0.5:
                        s["job_name"] = rng.choice(others)
                        if rng.random() < 0.4:
                            # clock skew between services: the differently named child
                            # starts before (or exactly with) the root span
                            root_start = min(x["start_timestamp"] for x in spans
                                             if x["parent_event_id"] is None) \
                                if any(x["parent_event_id"] is None for x in spans) \
                                else s["start_timestamp"]
                            s["start_timestamp"] = root_start - rng.choice([0, 1, 1000, 10**6])
        if empty_parent and rng.random() < 0.15:
            # the usual OTLP/JSON spelling of "no parent": an empty string
            for sp in spans:
                if sp["parent_event_id"] is None:
                    sp["parent_event_id"] = ""
        traces.append({"job_id": jid, "name": name, "kind": kind, "spans": spans})
    return {"traces": traces, "base": base, "total": total}


def flatten(store: dict, rng: random.Random, order: str) -> list[dict]:
    """Ingestion stream: by-trace, interleaved, reversed or shuffled."""
    per = [list(t["spans"]) for t in store["traces"]]
    if order == "by-trace":
        return [s for tr in per for s in tr]
    if order == "reversed":
        return [s for tr in reversed(per) for s in reversed(tr)]
    if order == "interleaved":
        out = []
        i = 0
        while any(per):
            if per[i % len(per)]:
                out.append(per[i % len(per)].pop(0))
            i += 1
        return out
    out = [s for tr in per for s in tr]
    rng.shuffle(out)
    return out


# ------------------------------------------------------------------------------------------
# model
# ------------------------------------------------------------------------------------------


def model_first_wins(stream: list[dict], existing: dict[str, dict] | None = None
                     ) -> dict[str, dict]:
    store = dict(existing or {})
    for s in stream:
        if s["event_id"] not in store:
            store[s["event_id"]] = dict(s, parent_event_id=s["parent_event_id"] or None)
    return store


def model_links(store: dict[str, dict]) -> set[tuple[str, str]]:
    return {(s["parent_event_id"], s["event_id"]) for s in store.values()
            if s["parent_event_id"]}


def window_of(stream: list[dict], time_buffer: int) -> tuple[int, int] | None:
    """(lo, hi) as get_time_window documents, None when the buffer swallows the data."""
    if not stream:
        lo, hi = 0, 9223372036854775807
    else:
        lo = min(s["start_timestamp"] for s in stream)
        hi = max(s["end_timestamp"] for s in stream)
        if hi < lo:
            lo, hi = 0, 9223372036854775807
    lo, hi = lo + time_buffer * MIN, hi - time_buffer * MIN
    if lo >= hi:
        return None
    return lo, hi


def model_clean(store: dict[str, dict], window: tuple[int, int]) -> dict[str, dict]:
    """Cleaning as documented: drop traces with a span whose parent is missing from the
    store; drop traces with no span start or end inside the window; job_name := root's."""
    by_job: dict[str, list[dict]] = {}
    for s in store.values():
        by_job.setdefault(s["job_id"], []).append(s)
    broken = {s["job_id"] for s in store.values()
              if s["parent_event_id"] and s["parent_event_id"] not in store}
    lo, hi = window
    out: dict[str, dict] = {}
    for jid, spans in by_job.items():
        if jid in broken:
            continue
        if not any(lo <= s["start_timestamp"] <= hi or lo <= s["end_timestamp"] <= hi
                   for s in spans):
            continue
        roots = [s for s in spans if s["parent_event_id"] is None]
        for s in spans:
            out[s["event_id"]] = dict(s, job_name=roots[0]["job_name"] if len(roots) == 1
                                      else s["job_name"])
    return out


# ------------------------------------------------------------------------------------------
# worker-side harness around the real SQLDataHolder
# ------------------------------------------------------------------------------------------

FIELDS = ("job_name", "job_id", "event_type", "event_id", "start_timestamp", "end_timestamp",
          "application_name", "parent_event_id")


class StatementLog:
    """SQLAlchemy before_cursor_execute / handle_error listeners on one engine."""

    def __init__(self, engine) -> None:  # noqa: ANN001
        from sqlalchemy import event
        self.counts: dict[str, int] = {}
        self.errors: dict[str, int] = {}
        self.statements: list[str] = []
        event.listen(engine, "before_cursor_execute", self._before)
        event.listen(engine, "handle_error", self._error)

    def _before(self, conn, cursor, statement, parameters, context, executemany):  # noqa: ANN001
        verb = statement.strip().split(None, 1)[0].upper()
        tgt = ""
        st = statement.upper()
        for t in ("NODE_ASSOCIATION", "JOB_HASHES", "TEMP_ROOT_NODES", "NODES"):
            if t in st:
                tgt = t
                break
        key = f"{verb} {tgt}".strip()
        self.counts[key] = self.counts.get(key, 0) + 1
        if verb in ("DELETE", "UPDATE"):
            self.statements.append(" ".join(statement.split())[:200])

    def _error(self, ctx):  # noqa: ANN001
        name = type(ctx.original_exception).__name__
        self.errors[name] = self.errors.get(name, 0) + 1


def new_holder(db_uri: str = "sqlite:///:memory:", batch_size: int = 1000, time_buffer: int = 0):
    from tel2puml.otel_to_pv.config import SQLDataHolderConfig
    from tel2puml.otel_to_pv.data_holders.sql_data_holder.sql_dataholder import SQLDataHolder
    h = SQLDataHolder(SQLDataHolderConfig(db_uri=db_uri, batch_size=batch_size,
                                          time_buffer=time_buffer))
    return h


def ingest(holder, stream: list[dict]) -> None:  # noqa: ANN001
    from tel2puml.otel_to_pv.otel_to_pv_types import OTelEvent
    with holder:
        for s in stream:
            holder.save_data(OTelEvent(**{k: s[k] for k in FIELDS}))


def dump(holder) -> tuple[dict[str, dict], set[tuple[str, str]], int]:  # noqa: ANN001
    """(nodes by event_id, association rows, number of node rows) read with plain SQL."""
    import sqlalchemy as sa
    with holder.engine.connect() as conn:
        rows = conn.execute(sa.text(
            "SELECT job_name, job_id, event_type, event_id, start_timestamp, end_timestamp, "
            "application_name, parent_event_id FROM nodes")).fetchall()
        assoc = conn.execute(sa.text(
            "SELECT parent_id, child_id FROM NODE_ASSOCIATION")).fetchall()
    nodes = {r[3]: dict(zip(FIELDS, r)) for r in rows}
    return nodes, {(a, b) for a, b in assoc}, len(rows)


def forget_temp_table() -> None:
    """find_unique_graphs registers temp_root_nodes on the class-level metadata; a second
    call in one process needs it removed (harness matter, see DESIGN.md 3.9)."""
    from tel2puml.otel_to_pv.data_holders.sql_data_holder.data_model import Base
    t = Base.metadata.tables.get("temp_root_nodes")
    if t is not None:
        Base.metadata.remove(t)


def stream_all(holder, flt=None) -> list[tuple[str, list[list[dict]]]]:  # noqa: ANN001
    """Consume stream_data the way the sequencer does: name by name, trace by trace."""
    out = []
    for name, traces in holder.stream_data(flt):
        tl = []
        for tr in traces:
            tl.append([e.model_dump() for e in tr])
        out.append((name, tl))
    return out


def diff_nodes(got: dict[str, dict], want: dict[str, dict]) -> dict | None:
    if got == want:
        return None
    missing = sorted(set(want) - set(got))
    extra = sorted(set(got) - set(want))
    changed = {k: {f: [got[k][f], want[k][f]] for f in FIELDS if got[k][f] != want[k][f]}
               for k in set(got) & set(want) if got[k] != want[k]}
    return {"missing": missing[:10], "extra": extra[:10],
            "changed": dict(list(changed.items())[:5])}
