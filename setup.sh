#!/bin/sh
# Offline setup: contracts library beside the repository's interpreter (git-ignored .deps).
set -e
cd "$(dirname "$0")"
if [ ! -d .deps/icontract ]; then
  /venv/bin/python -m pip install --quiet --no-index --find-links /opt/veriftools/wheels \
      --target .deps icontract deal >/dev/null 2>&1 || echo "warning: icontract/deal not installed"
fi
/venv/bin/python -c "import sys; sys.path.insert(0,'shim'); sys.path.insert(0,'/repo'); import test_event_generator" 
echo setup ok
