"""C13 - field-mapping extraction follows the documented path semantics (DESIGN.md 3.13).
The real JSONDataSource (compiled jq) against a reference interpreter of the HOWTO."""
from __future__ import annotations

import json
import os
import random
import shutil
import tempfile
from collections import Counter
from typing import Any

from vlib import core, refmap

PROP = "C13"
EOLS = ["\n", "", "\n\n", "\n \t\n", "\r\n"]


# ----------------------------------------------------------------------------- worker side
def _canon_ev(e: dict) -> str:
    return json.dumps(e, sort_keys=True)


def run_case(case: dict) -> dict:
    out = _run_one(case)
    if case.get("twin") and not out.get("skipped"):
        # the same documents under a mapping that differs ONLY inside one priority list, right
        # after the first one in the same interpreter: each mapping must be applied on its own
        t = _run_one(dict(case, mapping=case["twin"]["mapping"], spec=case["twin"]["spec"],
                          twin=None))
        out["twin_run"] = True
        if not t.get("skipped"):
            for v in t.get("violations", []):
                out["violations"].append({"symptom": v["symptom"],
                                          "detail": dict(v["detail"], second_mapping_of_a_twin=True)})
    return out


def _run_one(case: dict) -> dict:
    from tel2puml.otel_to_pv.data_sources.json_data_source.json_datasource import JSONDataSource
    from tel2puml.otel_to_pv.data_sources.json_data_source.json_config import (
        JSONDataSourceConfig, OTelFieldMapping)
    from tel2puml.otel_to_pv.data_sources.json_data_source.json_jq_converter import (
        field_mapping_to_compiled_jq, generate_records_from_compiled_jq)
    out: dict[str, Any] = {"status": "ok", "violations": [], "skipped": None}
    if case["kind"] == "doc-example":
        compiled = field_mapping_to_compiled_jq(case["spec"])
        got = list(generate_records_from_compiled_jq(refmap.DOC_EXAMPLE, compiled))
        out["records"] = len(got)
        if got != case["expected"]:
            out["violations"].append({"symptom": "documented-example-output-differs",
                                      "detail": {"got": got, "documented": case["expected"]}})
        return out
    mp = case["mapping"]
    docs = case["docs"]
    spec = case["spec"]
    # reference
    try:
        ref_records = [r for d in docs for r in refmap.extract(d, mp["fields"], mp["spine"])]
        ref_events = []
        for r in ref_records:
            ev = refmap.to_event(r)
            if ev is not None:
                ref_events.append(ev)
    except refmap.Undocumented as u:
        out["skipped"] = u.args[0]
        return out
    out["ref_records"] = len(ref_records)
    out["ref_events"] = len(ref_events)
    out["ref_invalid"] = len(ref_records) - len(ref_events)
    # 1. record level: the compiled query on each document
    try:
        compiled = field_mapping_to_compiled_jq(json.loads(json.dumps(spec)))
        got_records = [r for d in docs for r in generate_records_from_compiled_jq(d, compiled)]
    except Exception as exc:  # noqa: BLE001
        out["violations"].append({"symptom": f"exception:{type(exc).__name__}",
                                  "detail": {"exc": str(exc)[:300], "stage": "records"}})
        return out
    if Counter(map(_canon_ev, got_records)) != Counter(map(_canon_ev, ref_records)):
        only_code = list((Counter(map(_canon_ev, got_records))
                          - Counter(map(_canon_ev, ref_records))).elements())[:3]
        only_ref = list((Counter(map(_canon_ev, ref_records))
                         - Counter(map(_canon_ev, got_records))).elements())[:3]
        kind = "records-lost" if len(got_records) < len(ref_records) else (
            "records-extra" if len(got_records) > len(ref_records) else "record-values-differ")
        try:
            poisoned = [r for d in docs
                        for r in refmap.extract(d, mp["fields"], mp["spine"], poison=True)]
            if Counter(map(_canon_ev, got_records)) == Counter(map(_canon_ev, poisoned)):
                kind = "kv-lookup-null-because-sibling-value-unfollowable"
                out["poison_explains"] = True
        except refmap.Undocumented as u:
            if "kv-sibling-unfollowable" in case["tags"]:
                # the recorded kv finding nulls a value and thereby routes evaluation into a
                # shape the document says nothing about: neither judged nor counted as held
                out["skipped"] = "undocumented shape reached only through KF-C13: " + u.args[0]
                return out
        out["violations"].append({"symptom": "extraction:" + kind,
                                  "detail": {"only_code": only_code, "only_reference": only_ref,
                                             "n_code": len(got_records),
                                             "n_reference": len(ref_records)}})
    out["order_agrees"] = got_records == ref_records
    # 2. span level: the real data source on files
    wd = tempfile.mkdtemp(prefix="c13-", dir=case["work_dir"])
    try:
        mode = case["mode"]
        cfg: dict[str, Any] = {"field_mapping": OTelFieldMapping(**json.loads(json.dumps(spec)))}
        if mode == "dir":
            d = os.path.join(wd, "in")
            os.makedirs(os.path.join(d, "sub"))
            for i, doc in enumerate(docs):
                p = os.path.join(d, "sub" if i % 2 else "", f"f{i}.json")
                with open(p, "w", encoding="utf-8") as fh:
                    json.dump(doc, fh, indent=case.get("indent"), ensure_ascii=case["ascii"])
            cfg["dirpath"] = d
        elif mode == "per-line":
            p = os.path.join(wd, "lines.json")
            with open(p, "w", encoding="utf-8") as fh:
                # line terminators / file endings of a one-JSON-per-line file: final newline
                # or none, a trailing blank or whitespace-only line, CRLF
                eol = case.get("eol", "\n")
                nl = "\r\n" if eol == "\r\n" else "\n"
                body = nl.join(json.dumps(doc, ensure_ascii=case["ascii"]) for doc in docs)
                fh.write(body + eol)
            cfg["filepath"] = p
            cfg["json_per_line"] = True
        else:
            p = os.path.join(wd, "whole.json")
            with open(p, "w", encoding="utf-8") as fh:
                json.dump(docs[0], fh, indent=case.get("indent"), ensure_ascii=case["ascii"])
            cfg["filepath"] = p
        try:
            ds = JSONDataSource(JSONDataSourceConfig(**cfg))
            got_events = [e.model_dump() for e in ds]
        except Exception as exc:  # noqa: BLE001
            out["violations"].append({"symptom": f"exception:{type(exc).__name__}",
                                      "detail": {"exc": str(exc)[:300], "stage": "datasource"}})
            return out
        for e in got_events:
            e.pop("child_event_ids", None)
        out["got_events"] = len(got_events)
        cg, cr = Counter(map(_canon_ev, got_events)), Counter(map(_canon_ev, ref_events))
        if cg != cr:
            kind = "spans-lost" if len(got_events) < len(ref_events) else (
                "spans-extra" if len(got_events) > len(ref_events) else "span-values-differ")
            if out.get("poison_explains"):
                pe = [e for e in map(refmap.to_event, poisoned) if e is not None]
                if Counter(map(_canon_ev, pe)) == cg:
                    kind = "kv-lookup-null-because-sibling-value-unfollowable"
            out["violations"].append({"symptom": "datasource:" + kind,
                                      "detail": {"only_code": list((cg - cr).elements())[:3],
                                                 "only_reference": list((cr - cg).elements())[:3],
                                                 "n_code": len(got_events),
                                                 "n_reference": len(ref_events)}})
    finally:
        shutil.rmtree(wd, ignore_errors=True)
    return out


# ----------------------------------------------------------------------------- driver side
def workload(tier: str, seed: int) -> tuple[list[dict], dict]:
    n = 1500 if tier == "quick" else 40000
    rng = random.Random(f"c13-{seed}")
    wd = core.work_dir()
    cases: list[dict] = []
    for name, spec, expected in refmap.DOC_EXAMPLES:
        cases.append({"kind": "doc-example", "name": name, "spec": spec, "expected": expected,
                      "tags": ["doc-example"]})
    stats = Counter()
    for i in range(n):
        mp = refmap.gen_mapping(rng)
        hostile = rng.random() < 0.3
        mode = rng.choice(["whole", "whole", "per-line", "per-line", "dir"])
        ndocs = 1 if mode == "whole" else rng.randint(1, 4)
        noise = rng.choice([0.0, 0.3, 0.3, 1.0])
        big = i % 40 == 7
        docs = [refmap.jsonable(refmap.gen_doc(rng, mp, hostile and not big,
                                               0.0 if big else noise, big and d == ndocs // 2))
                for d in range(ndocs)]
        if big:
            mode = "per-line" if i % 80 == 7 else mode
        spec = {f: refmap.field_spec_of(fl, mp["spine"], rng) for f, fl in mp["fields"].items()}
        twin = None
        if i % 10 == 3:
            import copy
            cand = [(f, k) for f, fl in mp["fields"].items() for k, pr in enumerate(fl)
                    if len(pr) == 2 and pr[0] != pr[1]]
            if cand:
                f, k = rng.choice(cand)
                mp2 = copy.deepcopy(mp)
                mp2["fields"][f][k] = [mp2["fields"][f][k][1], mp2["fields"][f][k][0]]
                # the twin's YAML differs from the original only by the order inside that
                # one priority list (same spelling everywhere else)
                spec2 = copy.deepcopy(spec)
                for key in ("key_paths", "key_value", "value_paths"):
                    if key in spec2[f] and isinstance(spec2[f][key][k], list):
                        spec2[f][key][k] = list(reversed(spec2[f][key][k]))
                twin = {"mapping": mp2, "spec": spec2}
        tags = refmap.docs_tags(docs, mp) | {mode, "hostile" if hostile else "plain"}
        if twin:
            tags.add("twin-mapping")
        if big:
            tags.add("document-longer-than-64KiB")
        if refmap.kv_sibling_unfollowable(docs, mp):
            tags.add("kv-sibling-unfollowable")
        cases.append({"kind": "random", "name": f"m{i}", "mapping": mp, "docs": docs, "spec": spec,
                      "twin": twin, "mode": mode, "eol": EOLS[i % len(EOLS)],
                      "ascii": rng.random() < 0.5, "indent": rng.choice([None, None, 2]) if mode != "per-line"
                      else None, "tags": sorted(tags), "work_dir": wd})
        stats[mode] += 1
        stats["hostile" if hostile else "plain"] += 1
    return cases, dict(stats)


def main(tier: str, seed: int) -> int:
    chk = core.Check(
        PROP, tier, seed,
        rule="seeded (documents, mapping, mode) cases: mappings over one array spine of depth 1-3 "
             "(several naming schemes, dotted object paths between arrays) with header fields "
             "from outer levels, key/value lookups in attribute arrays at any level, '_' "
             "concatenation of 1-3 parts and priority fall-backs, written in the documented "
             "YAML spellings; documents with 0-3 elements per level, missing keys, null and "
             "empty arrays, attribute arrays with missing members, numbers vs strings, invalid "
             "timestamps, every 40th case with a document of 150-400 spans (> 64 KiB per line), "
             "values with surrounding blanks and U+2028/U+2029/U+0085 inside (files "
             "written with and without \\u escapes); 30% hostile (shape confusion, booleans, duplicate keys); modes "
             "whole-file / one-JSON-per-line / directory; plus the documentation's own examples "
             "verbatim; every tenth case is followed, in the same interpreter, by a twin whose "
             "mapping differs only in the order inside one priority list. distinct = distinct "
             "case digest; trivial = reference yields no record")
    chk.assumptions = [
        "reference interpreter vlib/refmap.py encodes docs/user/json_data_converter_HOWTO.md; "
        "where the document is silent (duplicate keys, boolean false, float/object leaves, "
        "object where an array is expected, non-string attribute keys) the case is skipped "
        "and counted",
        "record order is recorded, not demanded",
    ]
    cases, stats = workload(tier, seed)
    chk.extra["workload"] = stats
    results, notes = core.run_workers("checks.c13", "run_case", cases, hashseeds=[0],
                                      chunks_per_proc=2, timeout=3000)
    for n in notes:
        chk.note_inconclusive(n)
    obs = Counter()
    tagcount = Counter()
    for r in results:
        c = cases[r["_idx"]]
        if r.get("status") != "ok":
            chk.note_inconclusive(f"case {c['name']}: {r.get('status')} {r.get('detail')}")
            continue
        if r.get("skipped"):
            chk.skip(r["skipped"])
            continue
        nontrivial = c["kind"] == "doc-example" or r.get("ref_records", 0) > 0
        chk.case(core.digest([c.get("mapping"), c.get("docs"), c.get("mode"), c["name"]
                              if c["kind"] == "doc-example" else None]), nontrivial)
        for t in c["tags"]:
            tagcount[t] += 1
        obs["records_compared"] += r.get("ref_records", r.get("records", 0))
        obs["valid_spans_expected"] += r.get("ref_events", 0)
        obs["invalid_records_expected_skipped"] += r.get("ref_invalid", 0)
        obs["cases_with_invalid_and_valid_records"] += 1 if (
            r.get("ref_invalid") and r.get("ref_events")) else 0
        obs["order_agrees"] += 1 if r.get("order_agrees") else 0
        obs["doc_examples"] += 1 if c["kind"] == "doc-example" else 0
        for v in r["violations"]:
            w = {"case": {k: c[k] for k in c if k != "work_dir"}, "detail": v["detail"]}
            chk.violation(v["symptom"], w, c["tags"])
        if len(chk.samples) < 3 and c["kind"] == "random" and r.get("ref_events", 0) >= 2 \
                and len(json.dumps(c["docs"])) < 1500:
            chk.samples.append({"spec": c["spec"], "docs": c["docs"], "mode": c["mode"],
                                "valid_spans": r["ref_events"], "records": r["ref_records"]})
    chk.extra["monitor_observations"] = dict(obs)
    chk.extra["cases_by_tag"] = dict(tagcount)
    if obs["valid_spans_expected"] < 100:
        chk.note_inconclusive("fewer than 100 valid spans expected over the whole run")
    if obs["cases_with_invalid_and_valid_records"] == 0:
        chk.note_inconclusive("no case mixed invalid and valid records")
    if obs["doc_examples"] < len(refmap.DOC_EXAMPLES):
        chk.note_inconclusive("documented examples not all evaluated")
    return chk.finish()


def replay(path: str) -> int:
    with open(path) as fh:
        data = json.load(fh)
    c = dict(data["case"]["case"], work_dir=core.work_dir())
    res, _ = core.run_workers("checks.c13", "run_case", [c], nproc=1)
    bad = False
    for r in res:
        print({k: v for k, v in r.items() if k != "violations"})
        for v in r.get("violations", []):
            print(v["symptom"], json.dumps(v["detail"])[:900])
            bad = True
    if bad:
        print(f"VIOLATION property={PROP} replay={path}")
        return 1
    return 0 if res else 2
