"""C04 - updating a saved model (-om / -im) equals learning from all data at once; the model
file round-trips every event, set and count (DESIGN.md 3.4)."""
from __future__ import annotations

import itertools
import json
import random

from vlib import core, lcase, puml

PROP = "C04"


def splits_of(n: int, rng: random.Random, exhaustive_upto: int, sample: int) -> list[list[list[int]]]:
    """Ordered splits of range(n) (in a seeded job order) into 2-3 chunks; the first chunk is
    never empty, later chunks may be (pure reload)."""
    order = list(range(n))
    rng.shuffle(order)
    out = []
    two = [[order[:i], order[i:]] for i in range(1, n + 1)]           # i == n: empty 2nd chunk
    three = [[order[:i], order[i:j], order[j:]] for i in range(1, n + 1)
             for j in range(i, n + 1)]
    allsp = two + three
    if n <= exhaustive_upto:
        return allsp
    return rng.sample(allsp, min(sample, len(allsp)))


def workload(tier: str, seed: int) -> tuple[list[dict], list[dict], list[dict], dict]:
    if tier == "quick":
        want = {"corpus": 1, "core-exh": 45, "core-rand": 40, "edge": 8}
        exh, sample, ncli, nrt = 3, 3, 10, 300
    else:
        want = {"corpus": 1, "core-exh": 100000, "core-rand": 500, "edge": 60}
        exh, sample, ncli, nrt = 6, 8, 60, 5000
    defs = lcase.definitions(tier, seed + 5000, want)
    base, stats = lcase.s1_cases(defs, seed, k_list=(2,), schedules=1)
    rng = random.Random(f"c04-{seed}")
    wd = core.work_dir()
    cases = []
    for g, b in enumerate(base):
        n = len(b["jobs"])
        jobs = [puml.job_from_json(j) for j in b["jobs"]]
        full = puml.evidence_model(jobs)
        for si, sp in enumerate(splits_of(n, rng, exh, sample)):
            # which cumulative prefixes give the learner less evidence than the whole set
            incomplete = []
            acc: list[int] = []
            for ch in sp[:-1]:
                acc = acc + ch
                incomplete.append(puml.evidence_model([jobs[i] for i in acc]) != full)
            # job names with a space: file names are derived from them (<name>_model.json)
            nm = b["name"] if (g + si) % 5 else "wf " + b["name"]
            cases.append({"group": g, "name": nm, "kind": b["kind"], "src": b["src"],
                          "tags": b["tags"], "jobs": b["jobs"], "split": sp,
                          "prefix_incomplete": incomplete,
                          "uuid_seed": f"{seed}-{g}-{si}", "rng_seed": f"{seed}-{g}-{si}",
                          "work_dir": wd, "cap": 1200 if tier == "quick" else 3000})
    # beyond F: executions with counts > 1 - judged on the models (exact) only
    from vlib import gen
    rngc = random.Random(f"c04-counts-{seed}")
    cdefs = []
    for i in range(25 if tier == "quick" else 300):
        ast = gen.random_counts_def(rngc)
        cdefs.append({"name": f"cnt{i}", "kind": "counts", "ast": ast,
                      "tags": sorted(gen.tags_of(ast) | {"beyond-F", "counts"})})
    nfam = 0
    fam = gen.counts_family()
    if tier == "quick":
        start = (seed * 12) % len(fam)
        fam = (fam + fam)[start:start + 12]
    for i, ast in enumerate(fam):
        nfam += 1
        cdefs.append({"name": f"cntfam{i}", "kind": "counts", "ast": ast,
                      "tags": sorted(gen.tags_of(ast) | {"beyond-F", "counts", "counts-family"})})
    cbase, _cs = lcase.s1_cases(cdefs, seed, k_list=(2,), schedules=1)
    ncounts = 0
    for g, b in enumerate(cbase):
        n = len(b["jobs"])
        fam_def = "counts-family" in b["tags"]
        # the deterministic family: every split of small job sets (which count is first seen
        # after a reload matters), a larger sample otherwise
        for si, sp in enumerate(splits_of(n, rng, 4 if fam_def else 0, 6 if fam_def else 2)):
            ncounts += 1
            cases.append({"group": 10**6 + g, "name": b["name"], "kind": b["kind"],
                          "src": b["src"], "tags": b["tags"], "jobs": b["jobs"], "split": sp,
                          "prefix_incomplete": [True] * (len(sp) - 1), "model_only": True,
                          "uuid_seed": f"{seed}-c{g}-{si}", "rng_seed": f"{seed}-c{g}-{si}",
                          "work_dir": wd, "cap": 1200})
    stats["histories_with_counts_model_only"] = ncounts
    stats["counts_family_definitions"] = nfam
    stats["definitions"] = len(defs)
    stats["histories"] = len(cases)
    stats["histories_with_pure_reload"] = sum(1 for c in cases if not c["split"][-1])
    stats["histories_3_chunks"] = sum(1 for c in cases if len(c["split"]) == 3)
    # the same through the real CLI in separate processes
    pick = [c for c in cases if 2 <= len(c["jobs"]) <= 8 and all(c["split"])
            and not c.get("model_only")]
    rng.shuffle(pick)
    cli_cases = [dict(c, _wall_limit=900) for c in pick[:ncli]]
    stats["cli_histories"] = len(cli_cases)
    names_pool = ["A", "B", "C", "D", "E f", "G|g", "H_1", "é", "|||START|||"]
    rt = [{"rng_seed": f"rt-{seed}-{i}", "names": names_pool[:rng.randint(2, len(names_pool))],
           "job_name": rng.choice(["job", "a job name", "x/y", "ü"]), "work_dir": wd}
          for i in range(nrt)]
    stats["roundtrip_models"] = len(rt)
    return cases, cli_cases, rt, stats


def main(tier: str, seed: int) -> int:
    chk = core.Check(
        PROP, tier, seed,
        rule="histories = ordered splits of a complete sample (S1, k=2; corpus-63, "
             "exhaustive-small + random F_core, F_edge) into 2-3 chunks in a seeded job order: "
             "every split point for small sets (quick <=3 jobs, thorough <=6), sampled otherwise, "
             "later chunks may be empty (pure reload); every boundary goes model -> JSON file -> "
             "load, through pv_streams_to_puml_files/load_events_from_file and, for a subset, "
             "the real CLI (-om/-im) in separate processes; plus seeded hand-built models with "
             "counts > 1 and empty set lists for the file round trip. distinct = distinct "
             "(definition, chunk sizes); trivial = no fork or loop")
    chk.assumptions = [
        "janus stand-in /verif/shim; reference frontier semantics vlib/puml.py",
        "one-shot and chunked learning compared on the same process/schedule; language "
        "comparison bounded at 2 loop iterations",
    ]
    cases, cli_cases, rt, stats = workload(tier, seed)
    chk.extra["workload"] = stats
    hs = [(seed + 400 + i) % 4096 for i in range(8)]
    chk.extra["hashseeds"] = hs
    obs = {"histories": 0, "final_model_equals_reference": 0, "diagrams_compared": 0,
           "equal_by_normal_form": 0, "equal_by_language": 0, "both_unparsable": 0,
           "both_fail": 0, "gate_tree_reads": 0, "gate_tree_freshness_checks": 0,
           "gate_tree_freshness_undecided": 0, "pure_reload_histories": 0,
           "cli_histories": 0, "cli_process_runs": 0, "roundtrip_models": 0,
           "model_only_histories": 0, "branch_count_events_compared": 0,
           "roundtrip_max_count": 0, "roundtrip_with_empty_lists": 0}

    def tags_for(c: dict, r: dict) -> list[str]:
        tags = list(c["tags"])
        failed = next((s for s in r.get("steps", []) if not s["ok"]), None)
        if failed is not None and failed["chunk"] < len(c["prefix_incomplete"]) \
                and c["prefix_incomplete"][failed["chunk"]]:
            tags += ["S2-neq", "intermediate-step"]
        return tags

    results, notes = core.run_workers("vlib.present", "run_history_case", cases,
                                      hashseeds=hs, chunks_per_proc=4, timeout=3000)
    for n in notes:
        chk.note_inconclusive(n)
    for r in results:
        c = cases[r["_idx"]]
        if r.get("status") != "ok":
            chk.note_inconclusive(f"history {c['name']}: {r.get('status')} {r.get('detail')}")
            continue
        obs["histories"] += 1
        nontrivial = puml.has_kind(c["src"], ("and", "or", "xor", "loop"))
        chk.case(core.digest([repr(puml.normal_form(c["src"])), r["chunks"]]), nontrivial)
        if not c["split"][-1]:
            obs["pure_reload_histories"] += 1
        obs["gate_tree_reads"] += r.get("gate_tree_reads", 0)
        obs["gate_tree_freshness_checks"] += r.get("gate_tree_fresh_checks", 0)
        obs["gate_tree_freshness_undecided"] += r.get("gate_tree_fresh_undecided", 0)
        if c.get("model_only"):
            obs["model_only_histories"] += 1
            obs["branch_count_events_compared"] += r.get("bcnt_events", 0)
        if not r["one_ok"] and not r["final_ok"]:
            obs["both_fail"] += 1
        if r["final_ok"] and not any(v["symptom"].startswith("model-") for v in r["violations"]):
            obs["final_model_equals_reference"] += 1
        if r.get("equiv_how"):
            obs["diagrams_compared"] += 1
            obs["equal_by_normal_form" if r["equiv_how"] == "normal-form"
                else "equal_by_language"] += 1
        if r.get("both_unparsable"):
            obs["both_unparsable"] += 1
        for v in r["violations"]:
            w = {"kind": "history", "case": {k: c[k] for k in c if k != "work_dir"},
                 "hashseed": r.get("_hashseed"), "detail": v["detail"],
                 "final_text": (r.get("final_text") or "").split("\n"),
                 "one_text": (r.get("one_text") or "").split("\n")}
            chk.violation(v["symptom"], w, tags_for(c, r))
        if len(chk.samples) < 4 and nontrivial and len(c["jobs"]) <= 4 and r["final_ok"]:
            chk.samples.append({"definition": puml.to_text(c["src"], c["name"]).split("\n"),
                                "chunks": r["chunks"], "equivalent_by": r.get("equiv_how"),
                                "final": r["final_text"].split("\n")})
    cres, notes = core.run_workers("vlib.present", "run_cli_history_case", cli_cases,
                                   hashseeds=hs, chunks_per_proc=1, timeout=3000)
    for n in notes:
        chk.note_inconclusive(n)
    for r in cres:
        c = cli_cases[r["_idx"]]
        if r.get("status") != "ok":
            chk.note_inconclusive(f"cli history {c['name']}: {r.get('status')} {r.get('detail')}")
            continue
        obs["cli_histories"] += 1
        obs["cli_process_runs"] += r["cli_runs"]
        chk.case(core.digest(["cli", repr(puml.normal_form(c["src"])), r["chunks"]]), True)
        for v in r["violations"]:
            w = {"kind": "cli", "case": {k: c[k] for k in c if k != "work_dir"},
                 "hashseed": r.get("_hashseed"), "detail": v["detail"]}
            tags = list(c["tags"])
            fs = r.get("failed_step")
            if fs and fs["chunk"] < len(c["prefix_incomplete"]) and \
                    c["prefix_incomplete"][fs["chunk"]]:
                tags += ["S2-neq", "intermediate-step"]
            chk.violation(v["symptom"], w, tags)
    rres, notes = core.run_workers("vlib.present", "run_roundtrip_case", rt, hashseeds=hs,
                                   chunks_per_proc=1, timeout=1200)
    for n in notes:
        chk.note_inconclusive(n)
    for r in rres:
        c = rt[r["_idx"]]
        if r.get("status") != "ok":
            chk.note_inconclusive(f"roundtrip: {r.get('status')} {r.get('detail')}")
            continue
        obs["roundtrip_models"] += 1
        obs["roundtrip_max_count"] = max(obs["roundtrip_max_count"], r.get("max_count", 0))
        obs["roundtrip_with_empty_lists"] += 1 if r.get("empty_lists") else 0
        chk.case(core.digest(["rt", c["rng_seed"]]), True)
        for v in r["violations"]:
            chk.violation(v["symptom"], {"kind": "roundtrip",
                                         "case": {k: c[k] for k in c if k != "work_dir"},
                                         "detail": v["detail"]}, ["roundtrip"])
    chk.extra["monitor_observations"] = obs
    if obs["histories"] == 0 or obs["diagrams_compared"] == 0:
        chk.note_inconclusive("no history produced two diagrams to compare")
    if obs["pure_reload_histories"] == 0:
        chk.note_inconclusive("no history with a pure reload (empty last chunk)")
    if obs["gate_tree_freshness_checks"] == 0:
        chk.note_inconclusive("gate-tree freshness monitor never compared a tree")
    if obs["gate_tree_reads"] == 0:
        chk.note_inconclusive("gate-tree monitor never fired")
    if obs["cli_histories"] == 0:
        chk.note_inconclusive("no history went through the real CLI")
    if obs["roundtrip_max_count"] < 2:
        chk.note_inconclusive("round-trip models never had a count > 1")
    return chk.finish()


def replay(path: str) -> int:
    with open(path) as fh:
        data = json.load(fh)
    w = data["case"]
    c = dict(w["case"], work_dir=core.work_dir())
    fn = {"history": "run_history_case", "cli": "run_cli_history_case",
          "roundtrip": "run_roundtrip_case"}[w["kind"]]
    res, _ = core.run_workers("vlib.present", fn, [c], nproc=1, hashseeds=[w.get("hashseed") or 0])
    bad = False
    kf = core.KnownFindings()
    for r in res:
        for k in ("one_text", "final_text"):
            if r.get(k):
                print(f"--- {k}\n{r[k]}")
        for v in r.get("violations", []):
            # tags as recorded with the witness (structural facts about the input)
            known = kf.match(PROP, data.get("tags", []), v["symptom"])
            print(v["symptom"], json.dumps(v["detail"])[:600])
            if known:
                print(f"KNOWN-FINDING: property={PROP} {known['id']}: {v['symptom']}")
            else:
                bad = True
    if bad:
        print(f"VIOLATION property={PROP} replay={path}")
        return 1
    return 0 if res else 2
