"""C14 - otel2puml == otel2pv -se ; pv2puml through the saved files (DESIGN.md 3.14).
Both routes through the real CLI entry point, plus exact comparison of the saved PV files
with the in-memory stream."""
from __future__ import annotations

import json
import os
import random
import shutil
import tempfile
from typing import Any

from vlib import core, gen, otelgen, puml

PROP = "C14"
WF_NAMES = ["wfA", "wf B", "wfC", "wf-D", "rev [a]", "rev a", "wf [v2]", "w(f)", "orders.v1",
            "orders.v2"]
# a custom mapping whose user names collide with OTHER canonical field names (a chain of
# aliases): still one distinct name per field, so saving and loading with it must round-trip
CUSTOM_ALIAS = {"jobId": "job_id_x", "eventId": "event id", "timestamp": "ts",
                "previousEventIds": "prev", "applicationName": "eventType",
                "jobName": "workflow", "eventType": "jobName"}
CUSTOM = {"jobId": "job_id_x", "eventId": "event id", "timestamp": "ts", "previousEventIds": "prev",
          "applicationName": "app", "jobName": "job-name", "eventType": "type"}


# ----------------------------------------------------------------------------- worker side
def _canon_pv(e: dict) -> dict:
    e = dict(e)
    prev = e.get("previousEventIds", [])
    if isinstance(prev, str):
        prev = [prev]
    e["previousEventIds"] = sorted(prev or [])
    return e


def _in_memory(cfg_path: str, mem_db: str) -> dict[str, dict[str, dict[str, dict]]]:
    import yaml
    from tel2puml.otel_to_pv.config import IngestDataConfig
    from tel2puml.otel_to_pv.otel_to_pv import otel_to_pv
    with open(cfg_path) as fh:
        cfg = yaml.safe_load(fh)
    cfg["data_holders"]["sql"]["db_uri"] = mem_db
    out: dict[str, dict[str, dict[str, dict]]] = {}
    for job_name, streams in otel_to_pv(IngestDataConfig(**cfg), ingest_data=True):
        jobs = out.setdefault(job_name, {})
        for st in streams:
            for e in st:
                e = _canon_pv(e)
                jobs.setdefault(e["jobId"], {})[e["eventId"]] = e
    return out


def _handed_to_learner_by_otel2puml(cfg_path: str, outdir: str) -> tuple[dict, str | None]:
    """The job streams the otel2puml dispatcher hands to the learner, observed in-process by
    teeing pv_streams_to_puml_files inside tel2puml.otel_to_puml (the real otel_to_puml runs)."""
    import yaml
    import tel2puml.otel_to_puml as o2p
    from tel2puml.otel_to_pv.config import IngestDataConfig
    with open(cfg_path) as fh:
        cfg = yaml.safe_load(fh)
    cfg["data_holders"]["sql"]["db_uri"] = "sqlite:///:memory:"
    captured: dict[str, dict[str, dict[str, dict]]] = {}
    real = o2p.pv_streams_to_puml_files

    def tee(pv_streams, *args, **kwargs):  # noqa: ANN001, ANN002, ANN003
        def gen():  # noqa: ANN202
            for job_name, streams in pv_streams:
                jobs = [[dict(e) for e in st] for st in streams]
                dst = captured.setdefault(job_name, {})
                for j in jobs:
                    for e in j:
                        c = _canon_pv(e)
                        dst.setdefault(c["jobId"], {})[c["eventId"]] = c
                yield job_name, (list(j) for j in jobs)
        return real(gen(), *args, **kwargs)
    o2p.pv_streams_to_puml_files = tee
    err = None
    try:
        o2p.otel_to_puml(
            otel_to_pv_options={"config": IngestDataConfig(**cfg), "ingest_data": True,
                                "save_events": False, "find_unique_graphs": False},
            components="otel2puml", output_file_directory=outdir)
    except Exception as exc:  # noqa: BLE001
        err = f"{type(exc).__name__}: {exc}"[:300]
    finally:
        o2p.pv_streams_to_puml_files = real
    return captured, err


def _cli_in_process(argv: list[str]) -> int:
    """The command line entry point driven inside this (long-lived) worker interpreter: what
    the parser + main_handler do must not depend on earlier invocations in the process."""
    import contextlib
    import io
    from tel2puml.__main__ import ERROR_MESSAGES, main_handler, parser
    buf = io.StringIO()
    try:
        with contextlib.redirect_stdout(buf), contextlib.redirect_stderr(buf):
            main_handler(vars(parser.parse_args(argv)), ERROR_MESSAGES)
        return 0
    except SystemExit as exc:
        return int(exc.code or 0) if isinstance(exc.code, int) else 1


def _loaded_by_pv2puml(folder: str, job_name: str, mapping: dict | None) -> dict[str, dict]:
    """What pv2puml reads back from the saved files (its own loader, in-process)."""
    from tel2puml.pv_to_puml.pv_to_puml import pv_files_to_pv_streams
    from tel2puml.tel2puml_types import PVEventMappingConfig
    files = [os.path.join(folder, f) for f in sorted(os.listdir(folder))]
    kw: dict[str, Any] = {}
    if mapping:
        kw["mapping_config"] = PVEventMappingConfig(**mapping)
    jobs: dict[str, dict] = {}
    for _name, streams in pv_files_to_pv_streams(files, job_name, False, **kw):
        for st in streams:
            for e in st:
                e = _canon_pv(e)
                jobs.setdefault(e["jobId"], {})[e["eventId"]] = e
    return jobs


def run_routes(case: dict) -> dict:
    import yaml
    rng = random.Random(case["rng_seed"])
    wd = tempfile.mkdtemp(prefix="c14-", dir=case["work_dir"])
    out: dict[str, Any] = {"status": "ok", "violations": [], "cli_runs": 0, "workflows": {}}
    try:
        # ---- dataset ---------------------------------------------------------------------
        spans: list[dict] = []
        expected_jobs: dict[str, list] = {}
        base = 1_700_000_000 * 10**9
        t = 0
        for wf in case["workflows"]:
            runs = wf["runs"]
            copies = runs + [rng.choice(runs) for _ in range(rng.randint(0, 3))]
            if rng.random() < 0.4:
                # a trace that is a lone root span (the call returned before doing anything):
                # a one-event job next to the full ones
                copies.append([rng.choice(runs)[-1]])
                out["lone_root_span_traces"] = out.get("lone_root_span_traces", 0) + 1
            rng.shuffle(copies)
            expected_jobs[wf["name"]] = []
            for r in copies:
                t += 1
                sp = otelgen.run_to_spans(r, f"{wf['name']}-t{t}", wf["name"],
                                          rng.choice(["app1", "app two", ""]),
                                          base + t * 10**9, rng)
                spans += sp
                expected_jobs[wf["name"]].append(r)
        rng.shuffle(spans)
        docs = otelgen.spans_to_documents(spans, rng, nfiles=rng.randint(1, 3))
        otelgen.write_dataset(os.path.join(wd, "in"), docs, per_line=case["per_line"])
        seq_cfg = {"async_flag": True} if case["async"] else None
        cfg_a = os.path.join(wd, "cfg_a.yaml")
        cfg_b = os.path.join(wd, "cfg_b.yaml")
        bs = case["batch_size"]
        otelgen.write_config(cfg_a, os.path.join(wd, "in"), case["db_a"].format(wd=wd), bs, 0,
                             seq_cfg, case["per_line"])
        otelgen.write_config(cfg_b, os.path.join(wd, "in"), case["db_b"].format(wd=wd), bs, 0,
                             seq_cfg, case["per_line"])
        mapping = (CUSTOM_ALIAS if case.get("alias_mapping") else CUSTOM) \
            if case["custom_mapping"] else None
        mc = []
        if mapping:
            with open(os.path.join(wd, "map.yaml"), "w") as fh:
                yaml.safe_dump(mapping, fh)
            mc = ["-mc", os.path.join(wd, "map.yaml")]
        # ---- route A ---------------------------------------------------------------------
        ra = otelgen.cli(["-o", os.path.join(wd, "outA"), "otel2puml", "-c", cfg_a], wd)
        out["cli_runs"] += 1
        # ---- route B ---------------------------------------------------------------------
        rb = otelgen.cli(["-o", os.path.join(wd, "outB"), "otel2pv", "-c", cfg_b, "-se"] + mc, wd)
        out["cli_runs"] += 1
        out["rc_a"], out["rc_b1"] = ra["rc"], rb["rc"]
        if rb["rc"] != 0:
            out["violations"].append({"symptom": "route-fails:otel2pv-save-events",
                                      "detail": {"output": rb["out"][-600:]}})
            return out
        inverse = {v: k for k, v in mapping.items()} if mapping else None
        saved = otelgen.read_saved_pv(os.path.join(wd, "outB"), inverse)
        # ---- saved files == in-memory stream ----------------------------------------------
        try:
            mem = _in_memory(cfg_b, "sqlite:///:memory:")
        except Exception as exc:  # noqa: BLE001 - otel_to_pv is code under test
            out["violations"].append({"symptom": "in-memory-stream-raises:" + type(exc).__name__,
                                      "detail": {"exc": str(exc)[:300]}})
            return out
        out["jobs_in_memory"] = sum(len(j) for j in mem.values())
        out["events_in_memory"] = sum(len(e) for j in mem.values() for e in j.values())
        if saved != mem:
            d: dict[str, Any] = {"workflows_saved": sorted(saved), "workflows_memory": sorted(mem)}
            for wfn in sorted(set(saved) & set(mem)):
                if saved[wfn] != mem[wfn]:
                    jd = [j for j in set(saved[wfn]) | set(mem[wfn])
                          if saved[wfn].get(j) != mem[wfn].get(j)][:2]
                    d[wfn] = {j: {"saved": saved[wfn].get(j), "memory": mem[wfn].get(j)}
                              for j in jd}
            out["violations"].append({"symptom": "saved-pv-differs-from-in-memory-stream",
                                      "detail": d})
        if mapping:
            # the raw files must carry the custom key names only
            keys: set[str] = set()
            for wfn in os.listdir(os.path.join(wd, "outB")):
                for fn in os.listdir(os.path.join(wd, "outB", wfn)):
                    with open(os.path.join(wd, "outB", wfn, fn)) as fh:
                        for e in json.load(fh):
                            keys |= set(e)
            if not keys <= set(mapping.values()):
                out["violations"].append({"symptom": "saved-pv-keys-not-renamed",
                                          "detail": {"keys": sorted(keys)}})
        # ---- what the dispatcher hands to the learner on the otel2puml route ---------------
        handed, herr = _handed_to_learner_by_otel2puml(cfg_a, os.path.join(wd, "outA_inproc"))
        out["jobs_handed_to_learner"] = sum(len(j) for j in handed.values())
        if herr and ra["rc"] == 0:
            out["violations"].append({"symptom": "otel2puml-in-process-raises",
                                      "detail": {"exc": herr}})
        elif not herr and handed != mem:
            d2: dict[str, Any] = {}
            for wfn in sorted(set(handed) | set(mem)):
                a_, b_ = handed.get(wfn, {}), mem.get(wfn, {})
                if a_ != b_:
                    d2[wfn] = {"jobs_only_in_stream": sorted(set(b_) - set(a_))[:5],
                               "jobs_only_handed": sorted(set(a_) - set(b_))[:5],
                               "jobs_changed": sorted(j for j in set(a_) & set(b_)
                                                      if a_[j] != b_[j])[:5]}
            out["violations"].append({
                "symptom": "otel2puml-hands-learner-other-jobs-than-the-pv-stream",
                "detail": d2})
        # ---- expected jobs from the generator (observation) --------------------------------
        gen_ok = True
        for wfn, runs in expected_jobs.items():
            got = sorted(puml.job_key(puml.pv_to_job(list(evs.values())))
                         for evs in mem.get(wfn, {}).values())
            if case["async"]:
                want = sorted(puml.job_key(otelgen.run_to_job(r)) for r in runs)
            else:
                want = sorted(puml.job_key(_chain(otelgen.run_to_job(r))) for r in runs)
            if got != want:
                gen_ok = False
        out["pv_jobs_match_generator"] = gen_ok
        # ---- pv2puml per workflow -----------------------------------------------------------
        for wfn in sorted(saved):
            folder = os.path.join(wd, "outB", wfn)
            fname = wfn.replace(" ", "_")
            info: dict[str, Any] = {}
            out["workflows"][wfn] = info
            try:
                loaded = _loaded_by_pv2puml(folder, wfn, mapping)
            except Exception as exc:  # noqa: BLE001 - the loader is code under test
                loaded = None
                out["violations"].append({
                    "symptom": "pv2puml-cannot-load-saved-files:" + type(exc).__name__,
                    "detail": {"workflow": wfn, "exc": str(exc)[:300]}})
            if loaded is not None and loaded != mem.get(wfn):
                out["violations"].append({"symptom": "pv2puml-loads-different-events",
                                          "detail": {"workflow": wfn}})
            r2 = otelgen.cli(["-o", os.path.join(wd, "outB2"), "pv2puml", "-fp", folder,
                              "-jn", wfn] + mc, wd)
            out["cli_runs"] += 1
            info["rc_b2"] = r2["rc"]
            pa = os.path.join(wd, "outA", fname + ".puml")
            pb = os.path.join(wd, "outB2", fname + ".puml")
            a_ok = ra["rc"] == 0 and os.path.exists(pa)
            b_ok = r2["rc"] == 0 and os.path.exists(pb)
            silent = [r for r, rc, pth in (("otel2puml", ra["rc"], pa), ("pv2puml", r2["rc"], pb))
                      if rc == 0 and not os.path.exists(pth)]
            if silent:
                # a route that reports success owes one diagram per workflow it was given
                out["violations"].append({
                    "symptom": "route-exits-0-without-the-workflow's-diagram:" + "+".join(silent),
                    "detail": {"workflow": wfn, "expected_file": fname + ".puml",
                               "files_a": sorted(os.listdir(os.path.join(wd, "outA")))
                               if os.path.isdir(os.path.join(wd, "outA")) else None}})
                continue
            if a_ok != b_ok and not (ra["rc"] != 0 and not os.path.exists(pa)
                                     and _a_died_before(wfn, ra["out"])):
                out["violations"].append({
                    "symptom": "one-route-fails:" + ("pv2puml" if a_ok else "otel2puml"),
                    "detail": {"workflow": wfn, "out_a": ra["out"][-500:],
                               "out_b": r2["out"][-500:]}})
                continue
            if not a_ok:
                info["both_fail"] = True
                continue
            # the same pv2puml invocation inside this worker interpreter (which has already
            # served other workflows / cases): same diagram as the fresh process
            rc_in = _cli_in_process(["-o", os.path.join(wd, "outB3"), "pv2puml", "-fp", folder,
                                     "-jn", wfn] + mc)
            pc = os.path.join(wd, "outB3", fname + ".puml")
            info["in_process_rc"] = rc_in
            if rc_in != 0 or not os.path.exists(pc):
                out["violations"].append({
                    "symptom": "pv2puml-in-a-long-lived-process-fails",
                    "detail": {"workflow": wfn, "rc": rc_in}})
            else:
                C, _r, ic = puml.parse(open(pc).read(), expect_name=wfn)
                Bp, _s, ibp = puml.parse(open(pb).read(), expect_name=wfn)
                same = set(ic["names"]) == set(ibp["names"]) and (
                    (C is None and Bp is None) or (C is not None and Bp is not None and
                                                   puml.equivalent(C, Bp, 2, 800, rng)["ok"]))
                if not same:
                    out["violations"].append({
                        "symptom": "pv2puml-in-a-long-lived-process-differs-from-fresh-process",
                        "detail": {"workflow": wfn, "in_process": open(pc).read().split("\n"),
                                   "fresh": open(pb).read().split("\n")}})
            ta, tb = open(pa).read(), open(pb).read()
            A, _p, ia = puml.parse(ta, expect_name=wfn)
            B, _q, ib = puml.parse(tb, expect_name=wfn)
            info["names"] = len(set(ia["names"]))
            if set(ia["names"]) != set(ib["names"]):
                out["violations"].append({"symptom": "diagrams-differ:event-names",
                                          "detail": {"workflow": wfn, "a": ta, "b": tb}})
            elif A is None or B is None:
                if (A is None) != (B is None):
                    out["violations"].append({"symptom": "diagrams-differ:wellformedness",
                                              "detail": {"workflow": wfn, "a": ta, "b": tb}})
                else:
                    info["both_unparsable"] = True
            else:
                eq = puml.equivalent(A, B, 2, 1500, rng)
                info["equiv_how"] = eq.get("how")
                if not eq["ok"]:
                    out["violations"].append({
                        "symptom": "diagrams-differ:language",
                        "detail": {"workflow": wfn, "how": eq["how"],
                                   "witness": eq.get("witness"), "a": ta.split("\n"),
                                   "b": tb.split("\n")}})
                src = next(w["ast"] for w in case["workflows"] if w["name"] == wfn)
                if case["async"] or not puml.has_kind(src, ("and", "or")):
                    e2 = puml.equivalent(A, src, 2, 1500, rng)
                    info["equivalent_to_source_definition"] = e2["ok"]
        if ra["rc"] != 0 and not any(v["symptom"].startswith("one-route") for v in out["violations"]):
            out["route_a_failed"] = ra["out"][-400:]
    finally:
        shutil.rmtree(wd, ignore_errors=True)
    return out


def _a_died_before(wfn: str, output: str) -> bool:
    """otel2puml stops at the first workflow it cannot convert: later workflows have no file
    although nothing is wrong with them."""
    return f"Converting {wfn} to PUML" not in output


def _chain(job: tuple) -> tuple:
    """Synchronous sequencing yields the spans in post-order as one chain; for a run tree the
    post-order is the run's left-to-right order, i.e. the node order of run_to_job."""
    return tuple((lab, frozenset((i - 1,)) if i else frozenset()) for i, (lab, _p) in enumerate(job))


# ----------------------------------------------------------------------------- driver side
def _decorate_names(ast: list, rng: random.Random) -> list:
    """Event types with leading / trailing blanks and inner punctuation (distinct as strings)."""
    pick = {}

    def ren(seq: list) -> list:
        out = []
        for st in seq:
            if st[0] == "ev":
                if st[1] not in pick:
                    r = rng.random()
                    pick[st[1]] = st[1] + " " if r < 0.15 else (" " + st[1] if r < 0.25 else (
                        st[1] + " x" if r < 0.35 else st[1]))
                out.append(("ev", pick[st[1]]))
            elif st[0] in ("and", "or", "xor"):
                out.append((st[0], [ren(b) for b in st[1]]))
            elif st[0] == "loop":
                out.append(("loop", ren(st[1])))
            else:
                out.append(st)
        return out
    return ren(ast)


def _defs(rng: random.Random, sync_only: bool) -> tuple[list, list] | None:
    for _ in range(200):
        if not sync_only and rng.random() < 0.3:
            # several start events: the trace's first sibling group is a fork
            ast, _k = gen.random_edge(rng, "multi-start")
        else:
            ast = gen.random_core(rng, max_events=12)
        if rng.random() < 0.5:
            ast = _decorate_names(ast, rng)
        tags = gen.tags_of(ast)
        if "detach" in tags:
            continue
        if sync_only and puml.has_kind(ast, ("and", "or")):
            continue
        runs = otelgen.enumerate_runs(ast, 2, 24)
        if not runs or not all(otelgen.valid_run(r) for r in runs):
            continue
        if not puml.has_kind(ast, ("and", "or", "xor", "loop")) and rng.random() < 0.8:
            continue
        return ast, runs
    return None


def workload(tier: str, seed: int) -> tuple[list[dict], dict]:
    n = 16 if tier == "quick" else 240
    rng = random.Random(f"c14-{seed}")
    wd = core.work_dir()
    cases = []
    stats = {"async": 0, "sync": 0, "custom_mapping": 0, "file_db": 0, "per_line": 0}
    for i in range(n):
        is_async = i % 2 == 0
        custom = (i // 2) % 2 == 0
        wfs = []
        names = rng.sample(WF_NAMES, rng.randint(2, 3))
        if i % 4 == 1:
            # workflow names that differ only behind a dot
            names = ["orders.v1", "orders.v2"] + [x for x in names if not x.startswith("orders")][:1]
        for name in names:
            d = _defs(rng, sync_only=not is_async)
            if d is None:
                continue
            wfs.append({"name": name, "ast": lcase_json(d[0]), "runs": d[1]})
        file_db = rng.random() < 0.5
        per_line = rng.random() < 0.3
        cases.append({"rng_seed": f"{seed}-{i}", "workflows": wfs, "async": is_async,
                      "custom_mapping": custom, "alias_mapping": custom and (i // 4) % 2 == 1,
                      "per_line": per_line,
                      "db_a": "sqlite:///{wd}/a.db" if file_db else "sqlite:///:memory:",
                      "db_b": "sqlite:///{wd}/b.db" if file_db else "sqlite:///:memory:",
                      "batch_size": rng.choice([1, 2, 5, 1000]), "work_dir": wd,
                      "_wall_limit": 1500})
        stats["async" if is_async else "sync"] += 1
        stats["custom_mapping"] += custom
        stats["file_db"] += file_db
        stats["per_line"] += per_line
    return cases, stats


def lcase_json(ast: list) -> list:
    from vlib import lcase
    return lcase.ast_json(ast)


def main(tier: str, seed: int) -> int:
    chk = core.Check(
        PROP, tier, seed,
        rule="seeded multi-workflow trace sets (2-3 workflows, one name with a space): each "
             "workflow is a random F_core definition without detach whose complete set of runs "
             "(loops once and twice, <=24 runs) is turned into span trees (parent = last event of "
             "a sequence, parallel branches = overlapping sibling spans), some runs repeated, "
             "spans shuffled over 1-3 JSON files; x {sync (definitions without AND/OR), async} x "
             "{default, custom} PV key mapping x {memory, file} database x batch sizes. Both "
             "routes run through `python -m tel2puml`. distinct = distinct case seed")
    chk.assumptions = [
        "diagram comparison by the reference semantics vlib/puml.py (loops bounded at 2)",
        "workloads are complete samples of F_core definitions, where the learner is robust to "
        "presentation order (zero tolerance in C01-C03), so a difference between the routes is "
        "not attributable to the known order dependence on incomplete evidence",
    ]
    cases, stats = workload(tier, seed)
    chk.extra["workload"] = stats
    results, notes = core.run_workers("checks.c14", "run_routes", cases, hashseeds=[seed % 4096],
                                      chunks_per_proc=4, timeout=6000)
    for n in notes:
        chk.note_inconclusive(n)
    obs = {"cases": 0, "cli_process_runs": 0, "workflows_compared": 0, "equal_by_normal_form": 0,
           "equal_by_language": 0, "both_fail": 0, "jobs_compared_saved_vs_memory": 0,
           "jobs_handed_to_learner_compared": 0,
           "events_compared_saved_vs_memory": 0, "pv_jobs_match_generator": 0,
           "diagram_equivalent_to_source_definition": 0, "diagram_not_equivalent_to_source": 0,
           "route_a_failed": 0, "lone_root_span_traces": 0}
    for r in results:
        c = cases[r["_idx"]]
        if r.get("status") != "ok":
            chk.note_inconclusive(f"case {c['rng_seed']}: {r.get('status')} {r.get('detail')}")
            continue
        obs["cases"] += 1
        obs["cli_process_runs"] += r["cli_runs"]
        obs["jobs_compared_saved_vs_memory"] += r.get("jobs_in_memory", 0)
        obs["jobs_handed_to_learner_compared"] += r.get("jobs_handed_to_learner", 0)
        obs["events_compared_saved_vs_memory"] += r.get("events_in_memory", 0)
        obs["pv_jobs_match_generator"] += 1 if r.get("pv_jobs_match_generator") else 0
        obs["route_a_failed"] += 1 if r.get("route_a_failed") else 0
        obs["lone_root_span_traces"] += r.get("lone_root_span_traces", 0)
        chk.case(core.digest(c["rng_seed"]), True)
        for wfn, info in r["workflows"].items():
            if info.get("both_fail"):
                obs["both_fail"] += 1
            if info.get("equiv_how"):
                obs["workflows_compared"] += 1
                obs["equal_by_normal_form" if info["equiv_how"] == "normal-form"
                    else "equal_by_language"] += 1
            if "equivalent_to_source_definition" in info:
                obs["diagram_equivalent_to_source_definition"
                    if info["equivalent_to_source_definition"]
                    else "diagram_not_equivalent_to_source"] += 1
        for v in r["violations"]:
            tags = ["async" if c["async"] else "sync",
                    "custom-mapping" if c["custom_mapping"] else "default-mapping"]
            chk.violation(v["symptom"], {"case": {k: c[k] for k in c if k != "work_dir"},
                                         "detail": v["detail"]}, tags)
        if len(chk.samples) < 2:
            chk.samples.append({"async": c["async"], "custom_mapping": c["custom_mapping"],
                                "workflows": {w["name"]: puml.to_text(w["ast"], w["name"]).split("\n")
                                              for w in c["workflows"]},
                                "result": r["workflows"]})
    chk.extra["monitor_observations"] = obs
    if obs["workflows_compared"] == 0:
        chk.note_inconclusive("no pair of diagrams compared")
    if obs["cases"] and obs["both_fail"] > 0.2 * max(1, obs["workflows_compared"] + obs["both_fail"]):
        chk.note_inconclusive("more than 20% of the workflows failed on both routes")
    if obs["events_compared_saved_vs_memory"] == 0:
        chk.note_inconclusive("no saved event compared with the in-memory stream")
    return chk.finish()


def replay(path: str) -> int:
    with open(path) as fh:
        data = json.load(fh)
    c = dict(data["case"]["case"], work_dir=core.work_dir())
    res, _ = core.run_workers("checks.c14", "run_routes", [c], nproc=1)
    bad = False
    for r in res:
        print(json.dumps(r.get("workflows"))[:800])
        for v in r.get("violations", []):
            print(v["symptom"], json.dumps(v["detail"])[:1500])
            bad = True
    if bad:
        print(f"VIOLATION property={PROP} replay={path}")
        return 1
    return 0 if res else 2
