"""C06 - gate inference: sound always, exact without mixed OR (DESIGN.md 3.6).

Exhaustive enumeration of gate trees (<=5 events quick, <=6 thorough; depth <=3; alternating
operators); for each the full outcome family is handed to the real calculate_logic_gates and
the returned ProcessTree is evaluated with the same outcome semantics."""
from __future__ import annotations

import json
import random

from vlib import core, gates


# event types are opaque strings (span names): separators, brackets, operator look-alikes
HOSTILE_NAMES = ["lookup(user,key)", "retry,backoff", "GET /a b", "x->y", "+", "ταυ"]


def _infer(families: list[list[str]]):
    from tel2puml.events import EventSet
    from tel2puml.logic_detection import calculate_logic_gates
    return calculate_logic_gates({EventSet(list(s)) for s in families})


def counted_twin(fam_list: list[list[str]]) -> list[list[str]]:
    """The same family plus its largest set with one event twice: the same follower TYPES,
    other multiplicities (what an event type on two parallel branches produces)."""
    big = max(fam_list, key=len)
    return fam_list + [[big[0]] + list(big)]


def judge_tree(tree, counted_first: bool = False) -> dict:
    fam = gates.outcomes(tree)
    fam_list = sorted(sorted(s) for s in fam)
    if counted_first:
        # process history: an inference over the same types with counts > 1 ran before in
        # this interpreter; the answer for the plain family may not depend on it
        try:
            _infer(counted_twin(fam_list))
        except Exception:
            pass
    r = _judge_family(tree, fam, fam_list)
    if counted_first:
        r["history"] = "inference of the counted twin of this family ran first"
    return r


def _judge_family(tree, fam, fam_list) -> dict:
    try:
        pt = _infer(fam_list)
    except Exception as exc:
        return {"verdict": "violated", "symptom": f"exception:{type(exc).__name__}",
                "detail": repr(exc)[:300], "tree": gates.show(tree), "family": fam_list}
    try:
        adm = gates.admitted(pt)
    except gates.UnknownOperator as exc:
        # the property is about an AND/OR/XOR gate tree: for a complete outcome family of a
        # gate tree (the quantifier) anything else - a loop operator, say - is not one, and
        # whether it "admits" the observed sets is not even defined
        return {"verdict": "violated", "symptom": f"not-a-gate-tree:operator {exc}",
                "detail": f"operator {exc} in inferred tree", "in_class": gates.in_exact_class(tree),
                "tree": gates.show(tree), "inferred": gates.show_pt(pt), "family": fam_list}
    missing = fam - adm
    extra = adm - fam
    res = {"tree": gates.show(tree), "inferred": gates.show_pt(pt), "family": fam_list,
           "in_class": gates.in_exact_class(tree), "exact": not missing and not extra}
    if missing:
        res.update(verdict="violated", symptom="unsound:observed-set-not-admitted",
                   missing=sorted(sorted(s) for s in missing))
    elif extra and res["in_class"]:
        res.update(verdict="violated", symptom="inexact-in-class:admits-unobserved-set",
                   extra=sorted(sorted(s) for s in extra))
    else:
        res["verdict"] = "held"
    return res


def run_chunk(case: dict) -> dict:
    n, depth = case["n"], case["depth"]
    events = [chr(65 + i) for i in range(n)]
    if case.get("names") == "hostile":
        events = HOSTILE_NAMES[:n]
    hist = {"after_counted_twin": 0}
    counts = {"held": 0, "in_class": 0, "exact_in_class": 0, "inexact_outside_class": 0,
              "exact_outside_class": 0, "skip": 0}
    fails, samples = [], []
    total = 0
    if n == 1:
        it = iter(["A"]) if case["slice"] == 0 else iter([])
        idx_filter = False
    else:
        it = gates.gate_trees(events, depth)
        idx_filter = True
    depth_seen: dict[int, int] = {}
    for idx, tree in enumerate(it):
        if idx_filter and idx % case["of"] != case["slice"]:
            continue
        total += 1
        counted_first = not isinstance(tree, str) and (idx // max(1, case["of"])) % 2 == 1
        r = judge_tree(tree, counted_first)
        hist["after_counted_twin"] += 1 if counted_first else 0
        d = gates.tree_depth(tree)
        depth_seen[d] = depth_seen.get(d, 0) + 1
        if r["verdict"] == "held":
            counts["held"] += 1
            if r["in_class"]:
                counts["in_class"] += 1
                counts["exact_in_class"] += 1
            elif r["exact"]:
                counts["exact_outside_class"] += 1
            else:
                counts["inexact_outside_class"] += 1
        elif r["verdict"] == "skip":
            counts["skip"] += 1
        else:
            if len(fails) < 5:
                fails.append(r)
            counts["violated"] = counts.get("violated", 0) + 1
        if len(samples) < 1 and d >= 2:
            samples.append({"gate_tree": r["tree"], "observed_family": r.get("family"),
                            "inferred": r.get("inferred")})
    # sub-families (incomplete evidence): soundness only, informational
    rng = random.Random(case["rng_seed"])
    sub = {"sub_families": 0, "sub_unsound": 0}
    sub_examples = []
    if n >= 3:
        trees = []
        for idx, tree in enumerate(gates.gate_trees(events, depth)):
            if idx % case["of"] == case["slice"] and rng.random() < case["sub_rate"]:
                trees.append(tree)
        for tree in trees:
            fam = sorted(gates.outcomes(tree), key=sorted)
            if len(fam) < 3:
                continue
            k = rng.randint(2, len(fam) - 1)
            chosen = rng.sample(fam, k)
            try:
                pt = _infer([sorted(s) for s in chosen])
                adm = gates.admitted(pt)
            except Exception as exc:
                sub["sub_unsound"] += 1
                if len(sub_examples) < 3:
                    sub_examples.append({"family": [sorted(s) for s in chosen], "exc": repr(exc)[:200]})
                sub["sub_families"] += 1
                continue
            sub["sub_families"] += 1
            if set(chosen) - adm:
                sub["sub_unsound"] += 1
                if len(sub_examples) < 3:
                    sub_examples.append({"family": [sorted(s) for s in chosen],
                                         "inferred": gates.show_pt(pt)})
    return {"status": "ok", "n": total, "events": n, "sample": bool(case.get("sample")),
            "hostile": case.get("names") == "hostile", "hist": hist,
            "counts": counts, "fails": fails,
            "samples": samples, "depths": depth_seen, "sub": sub, "sub_examples": sub_examples}


def build_cases(tier: str, seed: int) -> list[dict]:
    P = core.NPROC
    cases = []
    sizes = [1, 2, 3, 4, 5] if tier == "quick" else [1, 2, 3, 4, 5, 6]
    for n in sizes:
        of = 1 if n <= 3 else (P if n <= 5 else 4 * P)
        for sl in range(of):
            cases.append({"n": n, "depth": 3, "slice": sl, "of": of,
                          "rng_seed": f"c06-{seed}-{n}-{sl}",
                          "sub_rate": 0.1 if n <= 5 else 0.02,
                          "uuid_seed": f"{seed}-{n}-{sl}"})
    # the same enumeration over hostile event-type names (commas, blanks, brackets, operator
    # look-alikes): complete for <= 4 events, one slice of the five-event trees
    for n in (2, 3, 4):
        cases.append({"n": n, "depth": 3, "slice": 0, "of": 1, "names": "hostile",
                      "rng_seed": f"c06-{seed}-h{n}", "sub_rate": 0.0,
                      "uuid_seed": f"{seed}-h{n}", "sample": True})
    for i in range(2 if tier == "quick" else P):
        cases.append({"n": 5, "depth": 3, "slice": (seed + i) % P, "of": P, "names": "hostile",
                      "rng_seed": f"c06-{seed}-h5-{i}", "sub_rate": 0.0,
                      "uuid_seed": f"{seed}-h5-{i}", "sample": True})
    if tier == "quick":
        # a seeded sample of the 6-event trees (complete in the thorough tier) and the flat
        # 7-event trees: inference cost and pseudo-log size grow with the number of parallel
        # successors, so defects that need >= 6 of them must be reachable on every change
        of = 90 * P
        for i in range(P):
            cases.append({"n": 6, "depth": 3, "slice": (seed * P + i) % of, "of": of,
                          "rng_seed": f"c06-{seed}-6-{i}", "sub_rate": 0.0,
                          "uuid_seed": f"{seed}-6-{i}", "sample": True})
        cases.append({"n": 7, "depth": 1, "slice": 0, "of": 1, "rng_seed": f"c06-{seed}-7",
                      "sub_rate": 0.0, "uuid_seed": f"{seed}-7", "sample": True})
    return cases


def main(tier: str, seed: int) -> int:
    chk = core.Check(
        "C06", tier, seed,
        rule="exhaustive: every labelled gate tree over 1..5 (thorough 1..6) distinct events, "
             "operators AND/OR/XOR alternating between levels, depth <=3, generated from set "
             "partitions (quick: plus a seeded sample of ~300 six-event trees and the flat "
             "seven-event trees); input = the complete outcome family of the tree; plus an in-situ "
             "soundness monitor on every calculate_logic_gates call made while the real "
             "pipeline learns corpus-63 / F_core / F_edge complete samples (event sets with "
             "loop and dummy events). distinct = distinct trees; trivial = the single-event "
             "tree")
    chk.exhaustive = True
    chk.assumptions = [
        "outcome semantics: AND = product, XOR = union, OR = products over non-empty child "
        "subsets; inferred tree evaluated with tau = empty set, sequence/parallel = product",
        "exactness demanded only in the stated sub-class (OR over plain events, no AND with "
        "two OR children)",
        "worker slices run under different PYTHONHASHSEED / uuid seeds (pseudo-log order)",
    ]
    hashseeds = [(seed * 31 + i) % 1000 for i in range(16)]
    results, notes = core.run_workers("checks.c06", "run_chunk", build_cases(tier, seed),
                                      hashseeds=hashseeds, chunks_per_proc=4, case_wall=5000, timeout=6000)
    for n in notes:
        chk.note_inconclusive(n)
    per_size: dict[int, int] = {}
    sub_tot = {"sub_families": 0, "sub_unsound": 0}
    sub_examples = []
    for r in results:
        if r.get("status") != "ok":
            chk.note_inconclusive(f"worker: {r.get('status')} {r.get('detail')}")
            continue
        chk.evaluations += r["n"]
        chk.count("trees_judged_after_counted_twin_inference", r["hist"]["after_counted_twin"])
        if r.get("hostile"):
            chk.count(f"trees_with_hostile_event_names_{r['events']}_events", r["n"])
        elif r.get("sample"):
            chk.count(f"sampled_trees_with_{r['events']}_events", r["n"])
        else:
            per_size[r["events"]] = per_size.get(r["events"], 0) + r["n"]
        for k, v in r["counts"].items():
            chk.count(k, v)
        for k, v in r["depths"].items():
            chk.count(f"depth_{k}", v)
        for k in sub_tot:
            sub_tot[k] += r["sub"][k]
        sub_examples += r["sub_examples"]
        for s in r["samples"]:
            if len(chk.samples) < 6:
                chk.samples.append(s)
        for f in r["fails"]:
            chk.violation(f["symptom"], f, tags=["in-class" if f.get("in_class") else "any"])
    trivial = per_size.get(1, 0)
    chk.distinct = {str(i) for i in range(chk.evaluations - trivial)}
    chk.extra["trees_per_event_count"] = per_size
    chk.extra["hashseeds"] = sorted(set(hashseeds))
    chk.extra["informational_incomplete_families"] = {
        **sub_tot, "examples": sub_examples[:3],
        "note": "random strict sub-families of outcome families (outside the quantifier): "
                "soundness observed, not judged"}
    # in-situ part: soundness of every real calculate_logic_gates call made by the running
    # pipeline (event sets with loop events, dummy start/end/break events, bunched merges)
    from vlib import lcase
    want = {"corpus": 1, "core-exh": 60, "core-rand": 40, "edge": 10} if tier == "quick" else \
        {"corpus": 1, "core-exh": 100000, "core-rand": 600, "edge": 80}
    defs = lcase.definitions(tier, seed + 6000, want)
    lcases, _st = lcase.s1_cases(defs, seed, k_list=(2,), schedules=1, check_extra=False,
                                 watch_gates=True)
    lres, notes2 = core.run_workers("vlib.lcase", "run_learn_case", lcases,
                                    hashseeds=hashseeds[:8], chunks_per_proc=4, timeout=3000)
    for n in notes2:
        chk.note_inconclusive(n)
    insitu = {"pipeline_runs": 0, "calls": 0, "checked": 0, "skipped_counts_gt_1": 0,
              "skipped_operator": 0, "unsound": 0}
    for r in lres:
        c = lcases[r["_idx"]]
        if r.get("status") != "ok":
            chk.note_inconclusive(f"in-situ case {c['name']}: {r.get('status')} {r.get('detail')}")
            continue
        g = r.get("gates") or {}
        insitu["pipeline_runs"] += 1
        insitu["calls"] += g.get("calls", 0)
        insitu["checked"] += g.get("checked", 0)
        insitu["skipped_counts_gt_1"] += g.get("skipped_counts", 0)
        insitu["skipped_operator"] += g.get("skipped_operator", 0)
        for u in g.get("unsound", []):
            insitu["unsound"] += 1
            chk.violation("unsound:observed-set-not-admitted",
                          {"in_situ": True, "definition": c["name"], "family": u["family"],
                           "inferred": u["inferred"], "missing": u["missing"],
                           "case": {k: c[k] for k in ("name", "jobs", "uuid_seed", "rng_seed")}},
                          tags=["in-situ"])
    if insitu["skipped_operator"]:
        chk.note_inconclusive(f"in-situ: {insitu['skipped_operator']} inferred trees held an "
                              "operator outside AND/OR/XOR and could not be evaluated")
    chk.evaluations += insitu["checked"]
    chk.extra["in_situ_monitor"] = insitu
    if insitu["checked"] == 0:
        chk.note_inconclusive("in-situ gate monitor observed no call")
    expect = {1: 1, 2: 3, 3: 21, 4: 243, 5: 2493, 6: 27099}
    for n, c in per_size.items():
        if expect.get(n) != c:
            chk.note_inconclusive(f"enumeration incomplete for {n} events: {c} != {expect.get(n)}")
    return chk.finish()


def replay(path: str) -> int:
    with open(path) as fh:
        data = json.load(fh)
    fam = data["case"]["family"]
    results, _ = core.run_workers("checks.c06", "run_replay", [{"family": fam,
                                  "history": bool(data["case"].get("history")),
                                  "in_class": data["case"].get("in_class", False)}], nproc=1)
    print(json.dumps(results, indent=1))
    bad = any(r.get("bad") for r in results)
    if bad:
        print(f"VIOLATION property=C06 replay={path}")
    return 1 if bad else (0 if results else 2)


def run_replay(case: dict) -> dict:
    fam = frozenset(frozenset(s) for s in case["family"])
    if case.get("history"):
        try:
            _infer(counted_twin(case["family"]))
        except Exception:
            pass
    pt = _infer(case["family"])
    adm = gates.admitted(pt)
    bad = bool(fam - adm) or (case["in_class"] and bool(adm - fam))
    return {"status": "ok", "bad": bad, "inferred": gates.show_pt(pt),
            "missing": sorted(sorted(s) for s in fam - adm),
            "extra": sorted(sorted(s) for s in adm - fam)}
