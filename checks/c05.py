"""C05 - emitted PlantUML is well-formed and names exactly the observed events
(DESIGN.md 3.5).  Strict pushdown checker over every emitted text."""
from __future__ import annotations

from vlib import core, lcase, lcheck

ASPECTS = {"parse", "wellformed", "names"}
PROP = "C05"


def workload(tier: str, seed: int) -> tuple[list[dict], dict]:
    if tier == "quick":
        want = {"corpus": 1, "core-exh": 110, "core-rand": 60, "edge": 40, "same-end": 40, "bunched": 20, "loop-families": 1}
        ks, s2 = (2,), 1
    else:
        want = {"corpus": 1, "core-exh": 100000, "core-rand": 1500, "edge": 400, "same-end": 500, "bunched": 1000, "loop-families": 1}
        ks, s2 = (2, 3), 3
    defs = lcase.definitions(tier, seed + 2000, want)
    cases, stats = lcase.s1_cases(defs, seed, k_list=ks, schedules=2, check_extra=False)
    c2, st2 = lcase.s2_cases(defs, seed, per_def=s2)
    stats.update(st2)
    stats["definitions"] = len(defs)
    # names with spaces / punctuation in the requested diagram name
    for i, c in enumerate(cases):
        if i % 7 == 3:
            c["puml_name"] = "wf " + c["name"] + " (v1)"
    return cases + c2, stats


def main(tier: str, seed: int) -> int:
    chk = core.Check(
        PROP, tier, seed,
        rule="every text emitted for the C01 workload (corpus-63, F_core exhaustive-small + "
             "random, F_edge incl. loops ending in a fork and several start events; S1 and S2 "
             "job sets; plus - beyond F - definitions where all branches of one AND/OR fork end "
             "in the same event type, which provokes branch counts) is run through a strict pushdown checker of the dialect and its event "
             "names compared with the input event types; plus calls of pv_streams_to_puml_files "
             "that emit three job names at once (each file judged against its own jobs). "
             "distinct = distinct (definition, "
             "stratum, k, size); trivial = no fork or loop")
    chk.assumptions = [
        "janus stand-in /verif/shim; dialect = statements the emitter and the corpus use "
        "(vlib/puml.py strict mode)",
        "not demanded: >=2 branches per block, non-empty branches, indentation",
    ]
    cases, stats = workload(tier, seed)
    chk.extra["workload"] = stats
    hs = [(seed + 200 + i) % 4096 for i in range(8)]
    chk.extra["hashseeds"] = hs
    lcheck.run(chk, cases, ASPECTS, hashseeds=hs, skip_no_output=True)
    # several job names emitted by one call: every file must describe its own jobs only
    import random
    from vlib import core as _core
    rng = random.Random(f"c05-multi-{seed}")
    pool = [c for c in cases if c["stratum"] == "S1" and c["kind"] in ("core-exh", "core-rand")
            and len(c["jobs"]) <= 12 and c.get("variant") == "base"]
    rng.shuffle(pool)
    nmulti = 12 if tier == "quick" else 150
    wd = _core.work_dir()
    multi = []
    for i in range(nmulti):
        parts = pool[3 * i:3 * i + 3]
        if len(parts) < 2:
            break
        multi.append({"parts": [{"name": f"wf{k} {p['name']}", "jobs": p["jobs"], "tags": p["tags"]}
                                for k, p in enumerate(parts)],
                      "rng_seed": f"{seed}-multi-{i}", "uuid_seed": f"{seed}-multi-{i}",
                      "work_dir": wd})
    mres, mnotes = _core.run_workers("vlib.present", "run_multi_job_case", multi,
                                     hashseeds=hs, chunks_per_proc=1, timeout=3000)
    for n in mnotes:
        chk.note_inconclusive(n)
    mobs = {"calls": 0, "files_checked": 0}
    for r in mres:
        c = multi[r["_idx"]]
        if r.get("status") != "ok":
            chk.note_inconclusive(f"multi-job call: {r.get('status')} {r.get('detail')}")
            continue
        mobs["calls"] += 1
        for k, part in enumerate(r["parts"]):
            tags = list(c["parts"][k]["tags"]) + ["multi-job-call"]
            w = {"multi_job_case": c, "part": part["name"], "result": part}
            if not part.get("emitted"):
                chk.violation("multi-job-call:file-not-emitted", w, tags)
                continue
            mobs["files_checked"] += 1
            chk.case(_core.digest(["multi", c["rng_seed"], part["name"]]), True)
            for pr in part["problems"]:
                chk.violation("malformed:" + pr["kind"], w, tags)
            if part["missing"]:
                chk.violation("names:event-missing-from-diagram", w, tags)
            if part["extra"]:
                chk.violation("names:placeholder-leaked" if part["leaked"]
                              else "names:event-not-in-input", w, tags)
    chk.extra["multi_job_calls"] = mobs
    if mobs["files_checked"] == 0:
        chk.note_inconclusive("no file of a multi-job call was checked")
    emitted = chk.evaluations - chk.extra.get("learner_failures", 0)
    chk.extra["texts_checked"] = emitted
    if emitted < chk.evaluations * 0.8:
        chk.note_inconclusive("more than 20% of the cases emitted no text")
    return chk.finish()


def replay(path: str) -> int:
    import json
    with open(path) as fh:
        data = json.load(fh)
    if "multi_job_case" in data.get("case", {}):
        from vlib import core as _core
        c = dict(data["case"]["multi_job_case"], work_dir=_core.work_dir())
        res, _ = _core.run_workers("vlib.present", "run_multi_job_case", [c], nproc=1)
        bad = False
        for r in res:
            for part in r.get("parts", []):
                probs = [p["kind"] for p in part.get("problems", [])]
                if not part.get("emitted") or probs or part.get("missing") or part.get("extra"):
                    bad = True
                    print(part["name"], "emitted" if part.get("emitted") else "NOT EMITTED", probs,
                          "missing", part.get("missing"), "extra", part.get("extra"))
                    print(part.get("puml", ""))
        if bad:
            print(f"VIOLATION property={PROP} replay={path}")
            return 1
        return 0 if res else 2
    return lcheck.replay_case(PROP, path, ASPECTS)
