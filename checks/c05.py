"""C05 - emitted PlantUML is well-formed and names exactly the observed events
(DESIGN.md 3.5).  Strict pushdown checker over every emitted text."""
from __future__ import annotations

from vlib import core, lcase, lcheck

ASPECTS = {"parse", "wellformed", "names"}
PROP = "C05"


def workload(tier: str, seed: int) -> tuple[list[dict], dict]:
    if tier == "quick":
        want = {"corpus": 1, "core-exh": 110, "core-rand": 60, "edge": 40, "same-end": 40, "bunched": 20, "loop-families": 1}
        ks, s2 = (2,), 1
    else:
        want = {"corpus": 1, "core-exh": 100000, "core-rand": 1500, "edge": 400, "same-end": 500, "bunched": 1000, "loop-families": 1}
        ks, s2 = (2, 3), 3
    defs = lcase.definitions(tier, seed + 2000, want)
    cases, stats = lcase.s1_cases(defs, seed, k_list=ks, schedules=2, check_extra=False)
    c2, st2 = lcase.s2_cases(defs, seed, per_def=s2)
    stats.update(st2)
    stats["definitions"] = len(defs)
    # names with spaces / punctuation in the requested diagram name
    for i, c in enumerate(cases):
        if i % 7 == 3:
            c["puml_name"] = "wf " + c["name"] + " (v1)"
    return cases + c2, stats


def main(tier: str, seed: int) -> int:
    chk = core.Check(
        PROP, tier, seed,
        rule="every text emitted for the C01 workload (corpus-63, F_core exhaustive-small + "
             "random, F_edge incl. loops ending in a fork and several start events; S1 and S2 "
             "job sets; plus - beyond F - definitions where all branches of one AND/OR fork end "
             "in the same event type, which provokes branch counts) is run through a strict pushdown checker of the dialect and its event "
             "names compared with the input event types. distinct = distinct (definition, "
             "stratum, k, size); trivial = no fork or loop")
    chk.assumptions = [
        "janus stand-in /verif/shim; dialect = statements the emitter and the corpus use "
        "(vlib/puml.py strict mode)",
        "not demanded: >=2 branches per block, non-empty branches, indentation",
    ]
    cases, stats = workload(tier, seed)
    chk.extra["workload"] = stats
    hs = [(seed + 200 + i) % 4096 for i in range(8)]
    chk.extra["hashseeds"] = hs
    lcheck.run(chk, cases, ASPECTS, hashseeds=hs, skip_no_output=True)
    emitted = chk.evaluations - chk.extra.get("learner_failures", 0)
    chk.extra["texts_checked"] = emitted
    if emitted < chk.evaluations * 0.8:
        chk.note_inconclusive("more than 20% of the cases emitted no text")
    return chk.finish()


def replay(path: str) -> int:
    return lcheck.replay_case(PROP, path, ASPECTS)
