"""C01 - the learned diagram accepts every job it was learned from (DESIGN.md 3.1)."""
from __future__ import annotations

from vlib import core, lcase, lcheck

ASPECTS = {"run", "parse", "accept"}
PROP = "C01"


def workload(tier: str, seed: int) -> tuple[list[dict], dict]:
    if tier == "quick":
        want = {"corpus": 1, "core-exh": 110, "core-rand": 60, "edge": 15, "bunched": 20, "loop-families": 1}
        ks, s2 = (2,), 1
    else:
        want = {"corpus": 1, "core-exh": 100000, "core-rand": 1500, "edge": 150, "bunched": 1000, "loop-families": 1}
        ks, s2 = (2, 3), 3
    defs = lcase.definitions(tier, seed, want)
    cases, stats = lcase.s1_cases(defs, seed, k_list=ks, schedules=2, corpus_schedules=8, check_extra=False)
    c2, st2 = lcase.s2_cases(defs, seed, per_def=s2)
    stats.update(st2)
    stats["definitions"] = len(defs)
    c3, st3 = lcase.evidence_subset_cases(tier, seed)
    stats["evidence_subsets_of_small_fork_definitions"] = st3
    return cases + c2 + c3, stats


def main(tier: str, seed: int) -> int:
    chk = core.Check(
        PROP, tier, seed,
        rule="definitions: corpus-63 + exhaustive-small F_core skeletons + seeded random F_core "
             "+ F_edge (E1/E2/E3/multi-start/multi-event-break); job sets: S1 = complete "
             "executions with loops run 1..k (k=2, thorough also 3), S2 = random strict subsets "
             "of L_3 classified S2-eq/S2-neq by an independently computed evidence model, plus "
             "EVERY non-empty subset of the executions of small fork definitions (3-branch OR, "
             "AND of XORs, XOR over OR, two ORs, OR in a loop; sampled where > 127/1100); each "
             "S1 set under 2 presentations/uuid schedules; a subset through the real command line "
             "and a subset supplied over two runs with a saved model in between. distinct = distinct (definition "
             "normal form, stratum, k, size); trivial = definitions without fork or loop")
    chk.assumptions = [
        "janus stand-in /verif/shim builds the same event graph from a PV job as the real package",
        "reference frontier semantics of the dialect (vlib/puml.py) decides membership exactly",
        "termination decided by a logical step budget (function entries in tel2puml), not wall clock",
    ]
    cases, stats = workload(tier, seed)
    chk.extra["workload"] = stats
    hs = [(seed + i) % 4096 for i in range(8)]
    chk.extra["hashseeds"] = hs
    lcheck.run(chk, cases, ASPECTS, hashseeds=hs)
    # a subset through the real command line (separate processes, three input modes)
    import random
    rng = random.Random(f"c01-cli-{seed}")
    pool = [c for c in cases if c["stratum"] == "S1" and c["kind"] in ("corpus", "core-exh",
                                                                       "core-rand")
            and 2 <= len(c["jobs"]) <= 12 and c.get("variant") == "base"]
    rng.shuffle(pool)
    ncli = 12 if tier == "quick" else 90
    wd = core.work_dir()
    # (one file per event cannot express "the same job supplied twice": the copies would be
    # merged into one job with every event doubled - that mode gets fresh ids/order only)
    cli_cases = [dict(c, mode=("folder", "files", "group-by-job")[i % 3], work_dir=wd,
                      variant="all" if i % 3 != 2 else "fresh-ids", _wall_limit=900,
                      puml_name=("wf " + c["name"]) if i % 4 == 0 else c["name"])
                 for i, c in enumerate(pool[:ncli])]
    lcheck.run(chk, cli_cases, ASPECTS, hashseeds=hs, label="command_line_subset",
               worker=("vlib.present", "run_cli_learn_case"))
    # evidence supplied over two runs: first batch learned and saved (-om), the model loaded
    # again (-im) with the second batch - every job of BOTH batches served as evidence
    from vlib import puml
    pool2 = [c for c in cases if c["stratum"] == "S1" and c["kind"] in ("core-exh", "core-rand")
             and 2 <= len(c["jobs"]) <= 12 and c.get("variant") == "base"]
    rng.shuffle(pool2)
    hcases = []
    for i, c in enumerate(pool2[:30 if tier == "quick" else 300]):
        order = list(range(len(c["jobs"])))
        rng.shuffle(order)
        cut = rng.randint(1, len(order) - 1)
        hcases.append({"name": ("wf " + c["name"]) if i % 2 else c["name"], "kind": c["kind"],
                       "src": c["src"], "tags": c["tags"], "jobs": c["jobs"],
                       "split": [order[:cut], order[cut:]], "uuid_seed": f"{seed}-mu-{i}",
                       "rng_seed": f"{seed}-mu-{i}", "work_dir": wd, "cap": 600})
    hres, hnotes = core.run_workers("vlib.present", "run_history_case", hcases, hashseeds=hs,
                                    chunks_per_proc=4, timeout=3000)
    for n in hnotes:
        chk.note_inconclusive(n)
    mu = {"histories": 0, "final_diagrams_matched_against_all_jobs": 0, "jobs_matched": 0,
          "names_with_space": 0}
    for r in hres:
        c = hcases[r["_idx"]]
        if r.get("status") != "ok":
            chk.note_inconclusive(f"model update {c['name']}: {r.get('status')} {r.get('detail')}")
            continue
        mu["histories"] += 1
        mu["names_with_space"] += " " in c["name"]
        chk.case(core.digest(["mu", repr(puml.normal_form(c["src"])), r["chunks"]]), True)
        if "final_rejects" in r:
            mu["final_diagrams_matched_against_all_jobs"] += 1
            mu["jobs_matched"] += len(c["jobs"]) - len(r["final_rejects"])
            if r["final_rejects"]:
                chk.violation("rejects-input:after-model-update",
                              {"kind": "model-update", "case": {k: c[k] for k in c if k != "work_dir"},
                               "hashseed": r.get("_hashseed"), "rejected": r["final_rejects"],
                               "learned": r.get("final_text")}, c["tags"] + ["model-update"])
        elif r.get("one_ok") and not r.get("final_ok"):
            chk.violation("exception:model-update-run-fails",
                          {"kind": "model-update", "case": {k: c[k] for k in c if k != "work_dir"},
                           "hashseed": r.get("_hashseed"),
                           "detail": [s for s in r.get("steps", []) if not s["ok"]][:1]},
                          c["tags"] + ["model-update"])
    chk.extra["evidence_over_two_runs"] = mu
    if mu["final_diagrams_matched_against_all_jobs"] == 0:
        chk.note_inconclusive("no model-update history produced a diagram to match")
    if not chk.extra.get("command_line_subset", {}).get("jobs_matched"):
        chk.note_inconclusive("no job set went through the command line")
    if chk.extra.get("jobs_matched", 0) == 0:
        chk.note_inconclusive("matcher accepted no job at all - oracle or learner not reached")
    for k in ("walk", "gates", "detect_loops"):
        if chk.extra["reach_counters"].get(k, 0) == 0:
            chk.note_inconclusive(f"deciding function never reached: {k}")
    return chk.finish()


def replay(path: str) -> int:
    import json
    with open(path) as fh:
        data = json.load(fh)
    w = data["case"]
    if w.get("kind") == "model-update":
        c = dict(w["case"], work_dir=core.work_dir())
        res, _ = core.run_workers("vlib.present", "run_history_case", [c], nproc=1,
                                  hashseeds=[w.get("hashseed") or 0])
        for r in res:
            print(r.get("final_text") or r.get("steps"))
            if r.get("final_rejects") or (r.get("one_ok") and not r.get("final_ok")):
                print("rejected jobs:", r.get("final_rejects"))
                print(f"VIOLATION property={PROP} replay={path}")
                return 1
        return 0 if res else 2
    return lcheck.replay_case(PROP, path, ASPECTS)
