"""C09 - unique-graph selection keeps one trace per distinct call-tree shape
(DESIGN.md 3.9).  Model: canonical (AHU) shape per trace, per workflow name."""
from __future__ import annotations

import json
import os
import random

from vlib import core, store

TYPES_SMALL = ["A", "AA"]          # prefix-related type names on purpose


def model_selection(stream: list[dict], window: tuple[int, int]) -> dict[str, dict]:
    """{name: {shape: set(trace ids)}} over the candidate traces (a span starts or ends in
    the window; the trace has a root)."""
    by_job: dict[str, list[dict]] = {}
    for s in stream:
        by_job.setdefault(s["job_id"], []).append(s)
    lo, hi = window
    out: dict[str, dict] = {}
    for jid, spans in by_job.items():
        roots = [s for s in spans if s["parent_event_id"] is None]
        if len(roots) != 1:
            continue
        if not any(lo <= s["start_timestamp"] <= hi or lo <= s["end_timestamp"] <= hi
                   for s in spans):
            continue
        out.setdefault(roots[0]["job_name"], {}).setdefault(store.shape_of(spans), set()).add(jid)
    return out


def judge(stream: list[dict], batch_size: int, time_buffer: int, uri: str, clean_first: bool
          ) -> tuple[str, dict | None, dict]:
    info: dict = {}
    holder = None
    try:
        holder = store.new_holder(uri, batch_size, time_buffer)
        log = store.StatementLog(holder.engine)
        store.ingest(holder, stream)
        model_store = store.model_first_wins(stream)
        win = store.window_of(stream, time_buffer)
        if clean_first:
            if win is None:
                return "skip:time buffer larger than the data (documented ValueError)", None, info
            holder.remove_inconsistent_jobs()
            holder.remove_jobs_outside_of_time_window()
            holder.update_job_names_by_root_span()
            model_store = store.model_clean(model_store, win)
        try:
            selected = holder.find_unique_graphs()
        except ValueError as exc:
            if win is None and "time buffer" in str(exc):
                return "skip:time buffer larger than the data (documented ValueError)", None, info
            raise
        finally:
            store.forget_temp_table()
        info["root_batches"] = log.counts.get("INSERT JOB_HASHES", 0)
    except Exception as exc:
        return f"violated:exception:{type(exc).__name__}", {"exc": repr(exc)[:300]}, info
    finally:
        if holder is not None:
            holder.engine.dispose()
    if win is None:
        return "violated:no-error-for-too-large-time-buffer", None, info
    want = model_selection(list(model_store.values()), win)
    info["shapes"] = sum(len(v) for v in want.values())
    info["traces"] = sum(len(ids) for v in want.values() for ids in v.values())
    by_id = {}
    for name, shapes in want.items():
        for sh, ids in shapes.items():
            for i in ids:
                by_id[i] = (name, sh)
    for name, ids in selected.items():
        seen = {}
        for i in ids:
            if i not in by_id:
                return "violated:selected-trace-not-a-stored-candidate", {"name": name, "id": i}, info
            if by_id[i][0] != name:
                return "violated:selected-under-wrong-workflow", {"name": name, "id": i,
                                                                 "root_name": by_id[i][0]}, info
            if by_id[i][1] in seen:
                return "violated:two-representatives-of-one-shape", {
                    "name": name, "ids": [seen[by_id[i][1]], i]}, info
            seen[by_id[i][1]] = i
    for name, shapes in want.items():
        got = {by_id[i][1] for i in selected.get(name, set())}
        miss = set(shapes) - got
        if miss:
            return "violated:shape-without-representative", {
                "name": name, "traces_of_missing_shape": sorted(shapes[next(iter(miss))])[:4],
                "selected": sorted(selected.get(name, set()))[:8]}, info
    extra_names = set(selected) - set(want)
    if extra_names:
        return "violated:unknown-workflow-selected", {"names": sorted(extra_names)}, info
    return "held", None, info


def judge_two_phase(stream: list[dict], batch_size: int, uri: str, split_seed: str
                    ) -> tuple[str, dict | None, dict]:
    """Two unique-graph evaluations on one database file with late-arriving spans in between:
    run 1 sees a parent-closed part of every trace, run 2 ingests the rest (which changes the
    shape of traces run 1 has already hashed).  Run 2's answer is judged against the model of
    the FULL store (window = the spans ingested in run 2, as the data holder defines it)."""
    info: dict = {}
    rng = random.Random(split_seed)
    by_id = {s["event_id"]: s for s in stream}
    first: list[dict] = []
    late: list[dict] = []
    kept: set[str] = set()
    for s in sorted(stream, key=lambda x: (x["job_id"], x["start_timestamp"])):
        par = s["parent_event_id"]
        if par is None or (par in kept and rng.random() < 0.6):
            first.append(s)
            kept.add(s["event_id"])
        else:
            late.append(s)
    if not late or not first:
        return "skip:no late span", None, info
    rng.shuffle(first)
    rng.shuffle(late)
    _ = by_id
    h1 = h2 = None
    try:
        h1 = store.new_holder(uri, batch_size, 0)
        store.ingest(h1, first)
        try:
            sel1 = h1.find_unique_graphs()
        finally:
            store.forget_temp_table()
        h1.engine.dispose()
        h1 = None
        w1 = model_selection(first, store.window_of(first, 0))
        info["run1_shapes"] = sum(len(v) for v in w1.values())
        h2 = store.new_holder(uri, batch_size, 0)
        store.ingest(h2, late)
        try:
            selected = h2.find_unique_graphs()
        finally:
            store.forget_temp_table()
    except Exception as exc:
        return f"violated:two-phase:exception:{type(exc).__name__}", {"exc": repr(exc)[:300]}, info
    finally:
        for h in (h1, h2):
            if h is not None:
                h.engine.dispose()
    want = model_selection(first + late, store.window_of(late, 0))
    info["shapes"] = sum(len(v) for v in want.values())
    info["late_spans"] = len(late)
    ident = {}
    for name, shapes in want.items():
        for sh, ids in shapes.items():
            for i in ids:
                ident[i] = (name, sh)
    info["traces_whose_shape_changed"] = sum(
        1 for name, shapes in w1.items() for sh, ids in shapes.items() for i in ids
        if i in ident and ident[i][1] != sh)
    for name, ids in selected.items():
        seen: dict = {}
        for i in ids:
            if i not in ident or ident[i][0] != name:
                return "violated:two-phase:selected-trace-not-a-candidate", {"name": name, "id": i}, info
            if ident[i][1] in seen:
                return "violated:two-phase:two-representatives-of-one-shape", {
                    "name": name, "ids": [seen[ident[i][1]], i]}, info
            seen[ident[i][1]] = i
    for name, shapes in want.items():
        got = {ident[i][1] for i in selected.get(name, set())}
        if set(shapes) - got:
            miss = next(iter(set(shapes) - got))
            return "violated:two-phase:shape-without-representative", {
                "name": name, "traces_of_missing_shape": sorted(shapes[miss])[:4],
                "selected": sorted(selected.get(name, set()))[:8]}, info
    _ = sel1
    return "held", None, info


def judge_fetch_only(stream: list[dict], batch_size: int, time_buffer: int, wd: str, tag: str
                     ) -> tuple[str, dict | None, dict]:
    """Two holders on one database file: the first only ingests; the second is the one the real
    `otel_to_pv(config, ingest_data=False, find_unique_graphs=True)` creates (it never saw the
    data arrive) and runs the pipeline's own cleaning + selection + streaming.  Oracle without
    any assumption on how a fetch-only holder derives its window: whatever traces are in the
    store AFTER the run, each (root workflow name, shape) among them has exactly one streamed
    representative, and every streamed trace is stored."""
    import shutil
    import sqlite3
    from vlib import otelgen
    from tel2puml.otel_to_pv.config import IngestDataConfig
    from tel2puml.otel_to_pv.otel_to_pv import otel_to_pv
    info: dict = {}
    d = os.path.join(wd, "fetch-" + tag)
    os.makedirs(os.path.join(d, "in"), exist_ok=True)
    db = os.path.join(d, "store.db")
    h1 = None
    try:
        h1 = store.new_holder("sqlite:///" + db, batch_size, time_buffer)
        store.ingest(h1, stream)
        h1.engine.dispose()
        h1 = None
        cfg = otelgen.write_config(os.path.join(d, "cfg.yaml"), os.path.join(d, "in"),
                                   "sqlite:///" + db, batch_size, time_buffer)
        streamed: dict[str, list[str]] = {}
        try:
            for name, streams in otel_to_pv(IngestDataConfig(**cfg), ingest_data=False,
                                            find_unique_graphs=True):
                for st in streams:
                    evs = list(st)
                    if evs:
                        streamed.setdefault(name, []).append(evs[0]["jobId"])
        finally:
            store.forget_temp_table()
        con = sqlite3.connect(db)
        try:
            rows = con.execute(
                "SELECT job_name, job_id, event_type, event_id, start_timestamp, end_timestamp, "
                "application_name, parent_event_id FROM nodes").fetchall()
        finally:
            con.close()
    except ValueError as exc:
        if "time buffer" in str(exc).lower():
            return "skip:time buffer larger than the data (documented ValueError)", None, info
        return f"violated:fetch-only:exception:{type(exc).__name__}", {"exc": repr(exc)[:300]}, info
    except Exception as exc:
        return f"violated:fetch-only:exception:{type(exc).__name__}", {"exc": repr(exc)[:300]}, info
    finally:
        if h1 is not None:
            h1.engine.dispose()
        shutil.rmtree(d, ignore_errors=True)
    after = [dict(zip(store.FIELDS, r)) for r in rows]
    # every stored span counts as a candidate: a window that cannot exclude anything
    want = model_selection(after, (-1, 2**63))
    info["stored_traces_after_run"] = len({s["job_id"] for s in after})
    info["removed_traces"] = len({s["job_id"] for s in stream}) - info["stored_traces_after_run"]
    info["shapes"] = sum(len(v) for v in want.values())
    ident = {i: (name, sh) for name, shapes in want.items() for sh, ids in shapes.items()
             for i in ids}
    for name, ids in streamed.items():
        seen: dict = {}
        for i in ids:
            if i not in ident or ident[i][0] != name:
                return "violated:fetch-only:streamed-trace-not-stored-under-that-name", {
                    "name": name, "id": i}, info
            if ident[i][1] in seen:
                return "violated:fetch-only:two-representatives-of-one-shape", {
                    "name": name, "ids": [seen[ident[i][1]], i]}, info
            seen[ident[i][1]] = i
    for name, shapes in want.items():
        got = {ident[i][1] for i in streamed.get(name, [])}
        if set(shapes) - got:
            miss = next(iter(set(shapes) - got))
            return "violated:fetch-only:shape-without-representative", {
                "name": name, "traces_of_missing_shape": sorted(shapes[miss])[:4],
                "streamed": sorted(streamed.get(name, []))[:8]}, info
    return "held", None, info


def build_store(rng: random.Random, mode: str) -> tuple[list[dict], dict]:
    """Returns (stream of span dicts, meta)."""
    names = rng.sample(["wf", "wf2", "w f 3"], rng.randint(1, 3))
    base = 1_700_000_000 * 10**9
    traces = []
    if mode == "small-exhaustive":
        shapes = store.all_small_shapes(rng.choice([2, 3, 3, 4]), TYPES_SMALL)
        picks = rng.sample(shapes, min(len(shapes), rng.randint(3, 14)))
    else:
        types = rng.choice([["A", "AA"], ["A", "B", "C"], ["x", "xy", "y", "yx"]])
        picks = [store.rand_tree(rng, rng.randint(1, 9), types, deep=rng.random() < 0.3)
                 for _ in range(rng.randint(2, 10))]
    t = 0
    for tree in picks:
        copies = rng.choice([1, 1, 2, 3])
        for _ in range(copies):
            name = rng.choice(names)
            jid = f"t{t}"
            t += 1
            spans = store.materialise(tree, jid, name, base + rng.randrange(40 * store.MIN), rng,
                                      rng.choice([10**6, 10**9, store.MIN]),
                                      sibling_perm=rng.random() < 0.7)
            traces.append({"job_id": jid, "name": name, "kind": "complete", "spans": spans})
    if traces and rng.random() < 0.4:
        # single-instant traces of their own shape exactly on the extremes of the data, at
        # nanosecond values that a double cannot hold (epoch-scale ns have a spacing of 256):
        # the new minimum would round UP, the new maximum DOWN - with integer, inclusive
        # window bounds both traces are candidates
        lo = min(s["start_timestamp"] for tr in traces for s in tr["spans"])
        hi = max(s["end_timestamp"] for tr in traces for s in tr["spans"])
        lo2 = lo - 1000
        lo2 = lo2 - lo2 % 256 + 200
        hi2 = hi + 1000
        hi2 = hi2 - hi2 % 256 + 256 + 50
        for tag, ts in (("EXTLO", lo2), ("EXTHI", hi2)):
            jid = f"t{t}"
            t += 1
            traces.append({"job_id": jid, "name": names[0], "kind": "complete", "spans": [{
                "job_name": names[0], "job_id": jid, "event_type": tag, "event_id": jid + ".0",
                "start_timestamp": ts, "end_timestamp": ts, "application_name": "app",
                "parent_event_id": None}]})
    st = {"traces": traces}
    order = rng.choice(["by-trace", "interleaved", "reversed", "shuffled"])
    return store.flatten(st, rng, order), {"order": order, "names": names, "traces": len(traces)}


def run_chunk(case: dict) -> dict:
    rng = random.Random(case["rng_seed"])
    wd = case["workdir"]
    os.makedirs(wd, exist_ok=True)
    counts: dict[str, int] = {}
    fails, samples = [], []
    distinct = set()
    n = 0

    def bump(k: str, v: int = 1) -> None:
        counts[k] = counts.get(k, 0) + v

    if case.get("large"):
        # more traces than any IN-list / parameter chunking inside one root batch: 520-700
        # traces of pairwise different small shapes under one root type, batch size 1000
        n_tr = rng.choice([520, 610, 700])
        base = 1_700_000_000 * 10**9
        spans = []
        for t in range(n_tr):
            jid = f"L{t:04d}"
            kids = [f"K{t % 40}", f"M{t // 40}"] + (["X"] if t % 3 == 0 else [])
            spans.append({"job_name": "wf", "job_id": jid, "event_type": "R",
                          "event_id": jid + ".0", "start_timestamp": base + t * 1000,
                          "end_timestamp": base + t * 1000 + 900, "application_name": "app",
                          "parent_event_id": None})
            for k, ty in enumerate(kids):
                spans.append({"job_name": "wf", "job_id": jid, "event_type": ty,
                              "event_id": f"{jid}.{k + 1}",
                              "start_timestamp": base + t * 1000 + 10 * (k + 1),
                              "end_timestamp": base + t * 1000 + 10 * (k + 1) + 5,
                              "application_name": "app", "parent_event_id": jid + ".0"})
        rng.shuffle(spans)
        v, d, info = judge(spans, 1000, 0, "sqlite:///:memory:", False)
        n += 1
        bump("large:" + (v if v.startswith("skip") else v.split(":")[0]))
        bump("large_store_traces", n_tr)
        if v.startswith("violated"):
            fails.append({"symptom": v[9:], "detail": d, "stream": spans, "batch_size": 1000,
                          "time_buffer": 0, "clean_first": False, "meta": {"large": True}})
    if case.get("large"):
        # extremes of the shape dimensions: call chains 99-130 levels deep that differ only at
        # the bottom (leaf type, a fork instead of nesting, one more level), and roots with
        # 150 children that differ in one child - every variant stored twice
        base = 1_700_000_000 * 10**9
        spans = []
        t = 0

        def add_trace(nodes: list[tuple[str, int | None]]) -> None:
            nonlocal t
            for _copy in range(2):
                jid = f"X{t:03d}"
                t += 1
                for i, (ty, par) in enumerate(nodes):
                    spans.append({"job_name": "wf", "job_id": jid, "event_type": ty,
                                  "event_id": f"{jid}.{i}", "start_timestamp": base + t * 10**6 + i,
                                  "end_timestamp": base + t * 10**6 + 5000 - i,
                                  "application_name": "app",
                                  "parent_event_id": None if par is None else f"{jid}.{par}"})
        for depth in (99, 100, 101, 102, 130):
            chain = [("C", None)] + [("C", i) for i in range(depth - 1)]
            add_trace(chain + [("OK", depth - 1)])
            add_trace(chain + [("ERROR", depth - 1)])
            add_trace(chain + [("OK", depth - 1), ("OK", depth - 1)])
            add_trace(chain + [("OK", depth - 1), ("OK", depth)])
        for width in (150,):
            star = [("R", None)] + [("K", 0)] * width
            add_trace(star)
            add_trace(star + [("K", 0)])
            add_trace(star[:-1] + [("k", 0)])
            add_trace(star + [("K", 1)])
        rng.shuffle(spans)
        for b in (3, 1000):
            v, d, info = judge(spans, b, 0, "sqlite:///:memory:", False)
            n += 1
            bump("extreme_shapes:" + (v if v.startswith("skip") else v.split(":")[0]))
            bump("extreme_shape_traces", t)
            if v.startswith("violated"):
                fails.append({"symptom": v[9:], "detail": d, "stream": spans, "batch_size": b,
                              "time_buffer": 0, "clean_first": False,
                              "meta": {"extreme_shapes": True}})
    for idx in range(case["count"]):
        mode = rng.choice(["small-exhaustive", "random", "hostile-cleaned"])
        if mode == "hostile-cleaned":
            st = store.gen_store(rng, rng.randint(2, 12), ["wf", "wf2"], ["A", "AA", "B"], 7)
            order = rng.choice(["by-trace", "interleaved", "reversed", "shuffled"])
            stream = store.flatten(st, rng, order)
            meta = {"order": order, "traces": len(st["traces"])}
            buffers = [0, 0, 1, 5, 20]
        else:
            stream, meta = build_store(rng, mode)
            buffers = [0, 0, 0, 1, 10]
        tb = rng.choice(buffers)
        verdicts = {}
        for b in (1, 2, 3, 1000):
            file_db = idx % 4 == 0 and b == 2
            path = os.path.join(wd, f"c09-{case['_idx']}-{idx}.sqlite")
            uri = "sqlite:///" + path if file_db else "sqlite:///:memory:"
            v, d, info = judge(stream, b, tb, uri, mode == "hostile-cleaned")
            if file_db and os.path.exists(path):
                os.remove(path)
            n += 1
            bump(v if v.startswith("skip") else v.split(":")[0])
            bump("mode:" + mode)
            bump("root_batches_walked", info.get("root_batches", 0))
            bump("shapes_seen", info.get("shapes", 0))
            bump("traces_seen", info.get("traces", 0))
            if info.get("traces", 0) > info.get("shapes", 0):
                bump("cases_with_repeated_shape")
            verdicts[b] = v
            distinct.add(core.digest([[(s["event_id"], s["event_type"], s["parent_event_id"],
                                        s["job_name"]) for s in stream], b, tb]))
            if v.startswith("violated") and len(fails) < 4:
                fails.append({"symptom": v[9:], "detail": d, "stream": stream, "batch_size": b,
                              "time_buffer": tb, "clean_first": mode == "hostile-cleaned",
                              "meta": meta})
        if idx % 3 == 0 and mode != "hostile-cleaned":
            path = os.path.join(wd, f"c09-2p-{case['_idx']}-{idx}.sqlite")
            b2 = rng.choice([1, 2, 3, 1000])
            split_seed = f"{case['rng_seed']}-{idx}"
            v2, d2, info2 = judge_two_phase(stream, b2, "sqlite:///" + path, split_seed)
            if os.path.exists(path):
                os.remove(path)
            n += 1
            bump("two_phase:" + (v2 if v2.startswith("skip") else v2.split(":")[0]))
            bump("two_phase_late_spans", info2.get("late_spans", 0))
            bump("two_phase_traces_whose_shape_changed", info2.get("traces_whose_shape_changed", 0))
            if v2.startswith("violated") and len(fails) < 4:
                fails.append({"symptom": v2[9:], "detail": d2, "stream": stream, "batch_size": b2,
                              "time_buffer": 0, "clean_first": False,
                              "meta": dict(meta, two_phase=True, split_seed=split_seed)})
        if idx % 3 == 1:
            b3 = rng.choice([1, 2, 3, 1000])
            tb3 = rng.choice([1, 2, 5, 10, 0])
            v3, d3, info3 = judge_fetch_only(stream, b3, tb3, wd, f"{case['_idx']}-{idx}")
            n += 1
            bump("fetch_only:" + (v3 if v3.startswith("skip") else v3.split(":")[0]))
            bump("fetch_only_removed_traces", info3.get("removed_traces", 0))
            bump("fetch_only_shapes", info3.get("shapes", 0))
            if v3.startswith("violated") and len(fails) < 4:
                fails.append({"symptom": v3[9:], "detail": d3, "stream": stream, "batch_size": b3,
                              "time_buffer": tb3, "clean_first": False,
                              "meta": dict(meta, fetch_only=True)})
        if not samples and mode == "small-exhaustive":
            samples.append({"traces": meta["traces"], "order": meta["order"], "time_buffer": tb,
                            "spans": [[s["job_id"], s["job_name"], s["event_type"],
                                       s["parent_event_id"]] for s in stream[:12]]})
    return {"status": "ok", "n": n, "distinct": len(distinct), "counts": counts, "fails": fails,
            "samples": samples}


def main(tier: str, seed: int) -> int:
    chk = core.Check(
        "C09", tier, seed,
        rule="stores built from (a) samples of ALL labelled trees with <=4 nodes over the type "
             "names {A, AA}, (b) random trees up to 9 spans over 2-4 types, (c) hostile stores "
             "(dangling / mixed-name / out-of-window traces) cleaned first; each shape copied "
             "1-3 times with permuted siblings under 1-3 workflow names; every store ingested "
             "trace-wise, interleaved, reversed or shuffled and evaluated with batch sizes "
             "{1,2,3,1000} and time buffers {0,1,5,10,20} min; every third store is also evaluated "
             "twice on one database file with late-arriving spans in between (the second "
             "answer must describe the full store); two (thorough 8) stores of 520-700 traces of "
             "pairwise different shapes evaluated with batch size 1000, each with a store of extreme "
             "shapes (call chains 99-130 deep differing only at the bottom, roots with 150 "
             "children differing in one child; every variant twice). distinct = distinct (store, "
             "batch size, buffer); all non-trivial")
    chk.assumptions = [
        "model: AHU canonical shape (type, sorted child shapes) per trace and root workflow name",
        "temp_root_nodes is removed from the class-level metadata between calls (harness "
        "matter: one CLI run makes one call)",
        "not generated: type names embedding a 16-hex digest (delimiter-free hash concatenation)",
    ]
    P = core.NPROC
    n = 640 if tier == "quick" else 12000
    wd = os.path.join(core.work_dir(), "c09")
    cases = [{"rng_seed": f"c09-{seed}-{i}", "count": n // P, "workdir": wd,
              "large": i < (2 if tier == "quick" else 8)} for i in range(P)]
    results, notes = core.run_workers("checks.c09", "run_chunk", cases, case_wall=5000, timeout=6000)
    for nt in notes:
        chk.note_inconclusive(nt)
    distinct = 0
    for r in results:
        if r.get("status") != "ok":
            chk.note_inconclusive(f"worker: {r.get('status')} {r.get('detail')}")
            continue
        chk.evaluations += r["n"]
        distinct += r["distinct"]
        for k, v in r["counts"].items():
            if k.startswith("skip:"):
                chk.skipped[k[5:]] = chk.skipped.get(k[5:], 0) + v
            else:
                chk.count(k, v)
        for s in r["samples"]:
            if len(chk.samples) < 4:
                chk.samples.append(s)
        for f in r["fails"]:
            chk.violation(f["symptom"], f, tags=["unique-graphs"])
    chk.distinct = {str(i) for i in range(distinct)}
    if chk.extra.get("cases_with_repeated_shape", 0) == 0:
        chk.note_inconclusive("no store contained two traces of one shape")
    if chk.extra.get("two_phase_traces_whose_shape_changed", 0) == 0:
        chk.note_inconclusive("two-phase drive: no trace changed its shape between the runs")
    return chk.finish()


def run_replay(case: dict) -> dict:
    if case.get("meta", {}).get("fetch_only"):
        v, d, info = judge_fetch_only(case["stream"], case["batch_size"], case["time_buffer"],
                                      core.work_dir(), "replay")
        return {"status": "ok", "verdict": v, "detail": d, "info": info}
    if case.get("meta", {}).get("two_phase"):
        path = os.path.join(core.work_dir(), "c09-replay.sqlite")
        v, d, info = judge_two_phase(case["stream"], case["batch_size"], "sqlite:///" + path,
                                     case["meta"]["split_seed"])
        if os.path.exists(path):
            os.remove(path)
        return {"status": "ok", "verdict": v, "detail": d}
    v, d, info = judge(case["stream"], case["batch_size"], case["time_buffer"],
                       "sqlite:///:memory:", case.get("clean_first", False))
    return {"status": "ok", "verdict": v, "detail": d}


def replay(path: str) -> int:
    with open(path) as fh:
        c = json.load(fh)["case"]
    results, _ = core.run_workers("checks.c09", "run_replay", [c], nproc=1)
    print(json.dumps(results, indent=1)[:2000])
    bad = any(r.get("verdict", "").startswith("violated") for r in results)
    if bad:
        print(f"VIOLATION property=C09 replay={path}")
    return 1 if bad else (0 if results else 2)
