"""C11 - cleaning removes exactly the broken / out-of-window traces (DESIGN.md 3.11)."""
from __future__ import annotations

import json
import os
import random

from vlib import core, store


def _pv_by_job(holder) -> dict[str, dict[str, dict]]:  # noqa: ANN001
    from tel2puml.otel_to_pv.sequence_otel import sequence_otel_job_id_streams
    out: dict[str, dict[str, dict]] = {}
    for name, traces in holder.stream_data():
        for job in sequence_otel_job_id_streams(traces):
            evs = list(job)
            if not evs:
                continue
            jid = evs[0]["jobId"]
            out[jid] = {e["eventId"]: {**dict(e),
                                       "previousEventIds": sorted(e.get("previousEventIds", []))}
                        for e in evs}
    return out


def judge(stream: list[dict], batch_size: int, time_buffer: int, wd: str, tag: str,
          via: str = "direct") -> tuple[str, dict | None, dict]:
    info: dict = {}
    win = store.window_of(stream, time_buffer)
    model0 = store.model_first_wins(stream)
    holder = None
    try:
        holder = store.new_holder("sqlite:///:memory:", batch_size, time_buffer)
        log = store.StatementLog(holder.engine)
        store.ingest(holder, stream)
        before, assoc_before, _ = store.dump(holder)
        try:
            holder.remove_inconsistent_jobs()
            holder.remove_jobs_outside_of_time_window()
            holder.update_job_names_by_root_span()
        except ValueError as exc:
            if win is None and "time buffer" in str(exc).lower():
                return "held-documented-error", None, info
            raise
        if win is None:
            return "violated:no-error-for-too-large-time-buffer", None, info
        after, assoc, nrows = store.dump(holder)
        info["writes"] = {k: v for k, v in log.counts.items()
                          if k.split()[0] in ("DELETE", "UPDATE", "INSERT")}
        want = store.model_clean(model0, win)
        info["removed_traces"] = len({s["job_id"] for s in model0.values()}
                                     - {s["job_id"] for s in want.values()})
        info["survivors"] = len({s["job_id"] for s in want.values()})
        info["renamed_spans"] = sum(1 for k, s in want.items() if s["job_name"] != model0[k]["job_name"])
        d = store.diff_nodes(after, want)
        if d:
            if d["extra"]:
                sym = "trace-not-removed"
            elif d["missing"]:
                sym = "intact-trace-touched:span-deleted"
            else:
                flds = {f for ch in d["changed"].values() for f in ch}
                sym = "workflow-name-not-root's" if flds == {"job_name"} else \
                    "intact-trace-touched:field-changed"
            return "violated:" + sym, d, info
        if nrows != len(after):
            return "violated:duplicate-rows", {"rows": nrows}, info
        want_links = store.model_links(want)
        if not want_links <= assoc:
            return "violated:intact-trace-touched:link-deleted", {
                "missing": sorted(want_links - assoc)[:6]}, info
        info["links_exact"] = assoc == want_links
        # statement log frame condition: cleaning only deletes from nodes/NODE_ASSOCIATION and
        # updates nodes.job_name
        for st in log.statements:
            up = st.upper()
            if up.startswith("UPDATE") and "SET JOB_NAME" not in up.replace("  ", " "):
                return "violated:unexpected-update-statement", {"sql": st}, info
        # PV sequences of survivors == PV sequences had the removed traces never been ingested
        got_pv = _pv_by_job(holder)
        surv_jobs = {s["job_id"] for s in want.values()}
        only = [s for s in stream if s["job_id"] in surv_jobs]
        h2 = store.new_holder("sqlite:///:memory:", batch_size, 0)
        store.ingest(h2, only)
        h2.remove_inconsistent_jobs()
        h2.remove_jobs_outside_of_time_window()
        h2.update_job_names_by_root_span()
        want_pv = _pv_by_job(h2)
        h2.engine.dispose()
        info["pv_jobs"] = len(got_pv)
        if got_pv != want_pv:
            diff = sorted(set(got_pv) ^ set(want_pv))[:5] or \
                [j for j in got_pv if got_pv[j] != want_pv[j]][:3]
            return "violated:pv-sequences-differ-from-never-ingested", {"jobs": diff}, info
        if set(got_pv) != surv_jobs:
            return "violated:survivor-not-sequenced", {
                "missing": sorted(surv_jobs - set(got_pv))[:5]}, info
    except Exception as exc:
        return f"violated:exception:{type(exc).__name__}", {"exc": repr(exc)[:300]}, info
    finally:
        if holder is not None:
            holder.engine.dispose()
    return "held", None, info


def judge_two_rounds(stream: list[dict], batch_size: int, time_buffer: int, cut: int
                     ) -> tuple[str, dict | None, dict]:
    """One long-lived holder: ingest the first part, clean, ingest the rest (which moves the
    extremes of the ingested data), clean again with the same buffer.  The second cleaning
    must use the window of everything this holder has ingested."""
    info: dict = {}
    # the second export overlaps the first: the last spans of part 1 are delivered again
    # (spans removed by the first cleaning come back, spans still stored are duplicates)
    overlap = min(cut, (cut * 7 + len(stream)) % 6)
    part1, part2 = stream[:cut], stream[cut - overlap:]
    info["overlap"] = overlap
    if not part1 or not part2:
        return "skip:empty part", None, info
    win1 = store.window_of(part1, time_buffer)
    win2 = store.window_of(part1 + part2, time_buffer)
    if win1 is None or win2 is None:
        return "skip:time buffer larger than the data", None, info
    holder = None
    try:
        holder = store.new_holder("sqlite:///:memory:", batch_size, time_buffer)
        store.ingest(holder, part1)
        holder.remove_inconsistent_jobs()
        holder.remove_jobs_outside_of_time_window()
        holder.update_job_names_by_root_span()
        store.ingest(holder, part2)
        holder.remove_inconsistent_jobs()
        holder.remove_jobs_outside_of_time_window()
        holder.update_job_names_by_root_span()
        after, _assoc, _n = store.dump(holder)
    except Exception as exc:
        return f"violated:two-rounds:exception:{type(exc).__name__}", {"exc": repr(exc)[:300]}, info
    finally:
        if holder is not None:
            holder.engine.dispose()
    m1 = store.model_clean(store.model_first_wins(part1), win1)
    want = store.model_clean(store.model_first_wins(part2, m1), win2)
    info["two_round_survivors"] = len({s["job_id"] for s in want.values()})
    info["window_moved"] = win1 != win2
    d = store.diff_nodes(after, want)
    if d:
        sym = "trace-not-removed" if d["extra"] else (
            "intact-trace-touched:span-deleted" if d["missing"] else "workflow-name-or-field-wrong")
        return "violated:two-rounds:" + sym, d, info
    return "held", None, info


def judge_pipeline(stream: list[dict], batch_size: int, time_buffer: int, wd: str, tag: str,
                   unique: bool, rng: random.Random) -> tuple[str, dict | None, dict]:
    """The same store driven through the real otel_to_pv(config, ingest_data=True[, unique
    graphs]) from JSON files into a database file - i.e. with the cleaning steps in whatever
    order and combination the pipeline itself runs them."""
    import shutil
    import sqlite3
    from vlib import otelgen
    from tel2puml.otel_to_pv.config import IngestDataConfig
    from tel2puml.otel_to_pv.otel_to_pv import otel_to_pv
    info: dict = {}
    win = store.window_of(stream, time_buffer)
    model0 = store.model_first_wins(stream)
    d = os.path.join(wd, "pipe-" + tag)
    os.makedirs(d, exist_ok=True)
    try:
        docs = otelgen.spans_to_documents(stream, rng, nfiles=rng.randint(1, 3))
        otelgen.write_dataset(os.path.join(d, "in"), docs)
        db = os.path.join(d, "store.db")
        cfg = otelgen.write_config(os.path.join(d, "cfg.yaml"), os.path.join(d, "in"),
                                   "sqlite:///" + db, batch_size, time_buffer)
        try:
            gen = otel_to_pv(IngestDataConfig(**cfg), ingest_data=True, find_unique_graphs=unique)
            jobs: dict[str, set] = {}
            for name, streams in gen:
                for st in streams:
                    evs = list(st)
                    if evs:
                        jobs[evs[0]["jobId"]] = {e["eventId"] for e in evs}
        except ValueError as exc:
            if win is None and "time buffer" in str(exc).lower():
                return "held-documented-error", None, info
            raise
        finally:
            store.forget_temp_table()
        if win is None:
            return "violated:no-error-for-too-large-time-buffer", None, info
        want = store.model_clean(model0, win)
        con = sqlite3.connect(db)
        try:
            rows = con.execute(
                "SELECT job_name, job_id, event_type, event_id, start_timestamp, end_timestamp, "
                "application_name, parent_event_id FROM nodes").fetchall()
        finally:
            con.close()
        after = {r[3]: dict(zip(store.FIELDS, r)) for r in rows}
        dd = store.diff_nodes(after, want)
        info["pipeline_survivors"] = len({s["job_id"] for s in want.values()})
        info["pipeline_removed"] = len({s["job_id"] for s in model0.values()}) - \
            info["pipeline_survivors"]
        if dd:
            sym = "trace-not-removed" if dd["extra"] else (
                "intact-trace-touched:span-deleted" if dd["missing"] else
                "workflow-name-or-field-wrong")
            return "violated:pipeline:" + sym, dd, info
        surv: dict[str, set] = {}
        for sp in want.values():
            surv.setdefault(sp["job_id"], set()).add(sp["event_id"])
        if not unique:
            if jobs != surv:
                return "violated:pipeline:pv-jobs-differ-from-survivors", {
                    "missing": sorted(set(surv) - set(jobs))[:5],
                    "extra": sorted(set(jobs) - set(surv))[:5]}, info
        else:
            shapes_all = {}
            for jid in surv:
                spans = [sp for sp in want.values() if sp["job_id"] == jid]
                shapes_all.setdefault((spans[0]["job_name"], repr(store.shape_of(spans))),
                                      set()).add(jid)
            for key, members in shapes_all.items():
                n_sel = len(members & set(jobs))
                if n_sel != 1:
                    return "violated:pipeline:shape-representatives", {
                        "shape": key[1][:200], "name": key[0], "selected": n_sel}, info
            if not set(jobs) <= set(surv):
                return "violated:pipeline:removed-trace-sequenced", {
                    "extra": sorted(set(jobs) - set(surv))[:5]}, info
            for jid in jobs:
                if jobs[jid] != surv[jid]:
                    return "violated:pipeline:pv-job-has-other-spans", {"job": jid}, info
        info["pipeline_jobs"] = len(jobs)
    except Exception as exc:
        return f"violated:pipeline:exception:{type(exc).__name__}", {"exc": repr(exc)[:300]}, info
    finally:
        shutil.rmtree(d, ignore_errors=True)
    return "held", None, info


def gen_case(rng: random.Random) -> tuple[list[dict], int, int, dict]:
    names = rng.sample(["alpha", "beta", "ga mma"], rng.randint(1, 3))
    minutes = rng.choice([3, 10, 30, 60])
    st = store.gen_store(rng, rng.randint(1, 14), names, ["A", "B", "C"], 7, True, minutes,
                         empty_parent=True)
    # traces touching the window edges exactly
    tb = rng.choice([0, 0, 1, 1, 2, 5, 12, 40])
    if rng.random() < 0.5 and st["traces"]:
        flat = [s for t in st["traces"] for s in t["spans"]]
        lo = min(s["start_timestamp"] for s in flat) + tb * store.MIN
        hi = max(s["end_timestamp"] for s in flat) - tb * store.MIN
        for k, (a, b) in enumerate([(lo - 10, lo), (hi, hi + 10), (lo - 20, lo - 1),
                                    (hi + 1, hi + 20), (lo - 5, hi + 5)]):
            if rng.random() < 0.6 and lo < hi:
                jid = f"edge{k}"
                st["traces"].append({"job_id": jid, "name": names[0], "kind": "edge", "spans": [{
                    "job_name": names[0], "job_id": jid, "event_type": "E", "event_id": jid + ".0",
                    "start_timestamp": a, "end_timestamp": b, "application_name": "app",
                    "parent_event_id": None}]})
    order = rng.choice(["by-trace", "interleaved", "shuffled"])
    stream = store.flatten(st, rng, order)
    b = rng.choice([1, 2, 3, 7, 1000])
    kinds: dict[str, int] = {}
    for t in st["traces"]:
        kinds[t["kind"]] = kinds.get(t["kind"], 0) + 1
    return stream, b, tb, {"order": order, "kinds": kinds}


def run_chunk(case: dict) -> dict:
    rng = random.Random(case["rng_seed"])
    counts: dict[str, int] = {}
    fails, samples = [], []
    distinct = set()
    n = 0

    def bump(k: str, v: int = 1) -> None:
        counts[k] = counts.get(k, 0) + v
    for idx in range(case["count"] + (1 if case["_idx"] % 4 == 0 else 0)):
        if idx == case["count"]:
            # one large store per fourth worker: thousands of traces, more than a thousand of
            # them to remove in one cleaning step (id lists beyond 999 / beyond the batch size)
            lr = random.Random(case["rng_seed"] + "-large")
            st = store.gen_store(lr, lr.choice([4600, 5400, 6200]), ["alpha", "beta"],
                                 ["A", "B", "C"], 3, True, 60, empty_parent=True)
            stream = store.flatten(st, lr, lr.choice(["by-trace", "interleaved", "shuffled"]))
            b, tb = lr.choice([100, 1000, 5000]), lr.choice([0, 1, 5])
            meta = {"order": "large", "kinds": {}}
            for t in st["traces"]:
                meta["kinds"][t["kind"]] = meta["kinds"].get(t["kind"], 0) + 1
            bump("large_stores")
        else:
            stream, b, tb, meta = gen_case(rng)
        v, d, info = judge(stream, b, tb, case["workdir"], f"{case['_idx']}-{idx}")
        if idx == case["count"]:
            bump("large_store_removed_traces", info.get("removed_traces", 0))
        n += 1
        bump(v.split(":")[0])
        for k, c in meta["kinds"].items():
            bump("trace_kind:" + k, c)
        bump("removed_traces", info.get("removed_traces", 0))
        bump("surviving_traces", info.get("survivors", 0))
        bump("renamed_spans", info.get("renamed_spans", 0))
        bump("pv_jobs_compared", info.get("pv_jobs", 0))
        if info.get("links_exact") is False:
            bump("association_rows_left_for_removed_spans")
        if info.get("removed_traces", 0) and info.get("survivors", 0):
            distinct.add(core.digest([[(s["event_id"], s["parent_event_id"], s["job_name"],
                                        s["start_timestamp"]) for s in stream], b, tb]))
        if v.startswith("violated") and len(fails) < 4:
            fails.append({"symptom": v[9:], "detail": d, "stream": stream, "batch_size": b,
                          "time_buffer": tb, "meta": meta})
        if idx % 4 == 0:
            uq = (idx // 4) % 2 == 1
            v2, d2, info2 = judge_pipeline(stream, b, tb, case["workdir"],
                                           f"{case['_idx']}-{idx}", uq, rng)
            n += 1
            bump("pipeline:" + v2.split(":")[0])
            bump("pipeline_unique_graph_runs" if uq else "pipeline_plain_runs")
            bump("pipeline_removed_traces", info2.get("pipeline_removed", 0))
            bump("pipeline_pv_jobs", info2.get("pipeline_jobs", 0))
            if v2.startswith("violated") and len(fails) < 4:
                fails.append({"symptom": v2[9:], "detail": d2, "stream": stream, "batch_size": b,
                              "time_buffer": tb, "meta": dict(meta, pipeline=True, unique=uq)})
        if idx % 5 == 1 and len(stream) >= 4:
            cut = rng.randint(1, len(stream) - 1)
            v3, d3, info3 = judge_two_rounds(stream, b, tb, cut)
            n += 1
            bump("two_rounds:" + (v3 if v3.startswith("skip") else v3.split(":")[0]))
            if info3.get("window_moved"):
                bump("two_rounds_window_moved_between_rounds")
            if info3.get("overlap"):
                bump("two_rounds_with_re_delivered_spans")
            if v3.startswith("violated") and len(fails) < 4:
                fails.append({"symptom": v3[9:], "detail": d3, "stream": stream, "batch_size": b,
                              "time_buffer": tb, "meta": dict(meta, two_rounds=True, cut=cut)})
        if not samples and info.get("removed_traces", 0) >= 2 and len(stream) < 25:
            samples.append({"time_buffer_min": tb, "batch_size": b, "kinds": meta["kinds"],
                            "spans": [[s["event_id"], s["parent_event_id"], s["job_name"],
                                       s["start_timestamp"], s["end_timestamp"]] for s in stream]})
    return {"status": "ok", "n": n, "distinct": len(distinct), "counts": counts, "fails": fails,
            "samples": samples}


def main(tier: str, seed: int) -> int:
    chk = core.Check(
        "C11", tier, seed,
        rule="seeded random stores of 1..14 traces (<=7 spans) mixing complete traces, dangling "
             "parents (leaf / middle / root missing), inconsistent workflow names, and traces "
             "inside / outside / straddling / touching the buffered window, ingested trace-wise, "
             "interleaved or shuffled with batch sizes {1,2,3,7,1000} and time_buffer "
             "{0,1,2,5,12,40} min; the three cleaning methods run in the order of otel_to_pv, and "
             "every fourth store additionally goes through the real otel_to_pv pipeline (JSON "
             "files -> database file -> cleaning -> [unique graphs] -> PV stream), every fifth is "
             "ingested and cleaned in two rounds on one long-lived holder; differently named "
             "child spans may start before their root (clock skew); 15% of the traces spell "
             "'no parent' as an empty string; the second round re-delivers the last spans of "
             "the first. "
             "distinct non-trivial = distinct stores where at least one trace was removed and "
             "at least one survived")
    chk.assumptions = [
        "model: vlib/store.py model_clean (documented rules; window = [min+buffer, max-buffer] "
        "of everything ingested in this run, inclusive)",
        "a too-large buffer raising the documented ValueError is accepted as such",
        "'never ingested' reference run uses time_buffer=0 so that its own window removes nothing",
    ]
    P = core.NPROC
    n = 1600 if tier == "quick" else 40000
    wd = os.path.join(core.work_dir(), "c11")
    cases = [{"rng_seed": f"c11-{seed}-{i}", "count": n // P, "workdir": wd} for i in range(P)]
    results, notes = core.run_workers("checks.c11", "run_chunk", cases, case_wall=5000, timeout=6000)
    for nt in notes:
        chk.note_inconclusive(nt)
    distinct = 0
    for r in results:
        if r.get("status") != "ok":
            chk.note_inconclusive(f"worker: {r.get('status')} {r.get('detail')}")
            continue
        chk.evaluations += r["n"]
        distinct += r["distinct"]
        for k, v in r["counts"].items():
            chk.count(k, v)
        for s in r["samples"]:
            if len(chk.samples) < 3:
                chk.samples.append(s)
        for f in r["fails"]:
            chk.violation(f["symptom"], f, tags=["cleaning"])
    chk.distinct = {str(i) for i in range(distinct)}
    if chk.extra.get("pipeline_removed_traces", 0) == 0 or chk.extra.get("pipeline_pv_jobs", 0) == 0:
        chk.note_inconclusive("the pipeline drive never removed a trace / never produced a job")
    if chk.extra.get("removed_traces", 0) == 0 or chk.extra.get("renamed_spans", 0) == 0:
        chk.note_inconclusive("cleaning never removed a trace / never renamed a span")
    return chk.finish()


def run_replay(case: dict) -> dict:
    if case.get("meta", {}).get("two_rounds"):
        v, d, info = judge_two_rounds(case["stream"], case["batch_size"], case["time_buffer"],
                                      case["meta"]["cut"])
        return {"status": "ok", "verdict": v, "detail": d}
    if case.get("meta", {}).get("pipeline"):
        wd = os.path.join(core.work_dir(), "c11r")
        v, d, info = judge_pipeline(case["stream"], case["batch_size"], case["time_buffer"], wd,
                                    "r", case["meta"]["unique"], random.Random(0))
        return {"status": "ok", "verdict": v, "detail": d}
    v, d, info = judge(case["stream"], case["batch_size"], case["time_buffer"], "", "r")
    return {"status": "ok", "verdict": v, "detail": d}


def replay(path: str) -> int:
    with open(path) as fh:
        c = json.load(fh)["case"]
    results, _ = core.run_workers("checks.c11", "run_replay", [c], nproc=1)
    print(json.dumps(results, indent=1)[:2000])
    bad = any(r.get("verdict", "").startswith("violated") for r in results)
    if bad:
        print(f"VIOLATION property=C11 replay={path}")
    return 1 if bad else (0 if results else 2)
