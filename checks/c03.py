"""C03 - the diagram depends only on the set of job graphs: independent of job order, event
order, ids, timestamps, repeats and interpreter hash seed (DESIGN.md 3.3)."""
from __future__ import annotations

import json
import random

from vlib import core, lcase, puml

PROP = "C03"
VARIANTS = ["base", "job-order", "event-order", "fresh-ids", "time-shift", "dup-same-ids",
            "dup-new-ids", "all", "group-by-job"]


def workload(tier: str, seed: int) -> tuple[list[dict], list[dict], dict]:
    if tier == "quick":
        want = {"corpus": 1, "core-exh": 40, "core-rand": 40, "edge": 10, "bunched": 60}
        npres, s2 = 9, 1
    else:
        want = {"corpus": 1, "core-exh": 100000, "core-rand": 600, "edge": 80, "bunched": 1000}
        npres, s2 = 16, 2
    defs = lcase.definitions(tier, seed + 4000, want)
    base, stats = lcase.s1_cases(defs, seed, k_list=(2,), schedules=1)
    b2, st2 = lcase.s2_cases(defs, seed, per_def=s2)
    stats.update(st2)
    stats["definitions"] = len(defs)
    # beyond F: executions with counts > 1 (same event type on parallel branches) - judged by
    # the ingestion-level monitor (exact reference for any job DAG) and on syntactic equality
    # of the diagrams up to branch order (150/150 such job sets gave one form under 8
    # presentations x hash seeds on the unchanged tree)
    import random as _r
    from vlib import gen
    rngc = _r.Random(f"c03-counts-{seed}")
    ncounts = 30 if tier == "quick" else 400
    cdefs = []
    for i in range(ncounts):
        ast = gen.random_counts_def(rngc)
        cdefs.append({"name": f"cnt{i}", "kind": "counts", "ast": ast,
                      "tags": sorted(gen.tags_of(ast) | {"beyond-F", "counts"})})
    fam = gen.counts_family()
    if tier == "quick":
        start = (seed * 9) % len(fam)
        fam = (fam + fam)[start:start + 9]
    for i, ast in enumerate(fam):
        cdefs.append({"name": f"cntfam{i}", "kind": "counts", "ast": ast,
                      "tags": sorted(gen.tags_of(ast) | {"beyond-F", "counts", "counts-family"})})
    cgroups, _cst = lcase.s1_cases(cdefs, seed, k_list=(2,), schedules=1)
    for c in cgroups:
        c["counts"] = True
    stats["job_sets_with_counts"] = len(cgroups)
    groups = base + b2 + cgroups
    cases = []
    wd = core.work_dir()
    for g, b in enumerate(groups):
        for p in range(npres):
            variant = VARIANTS[p] if p < len(VARIANTS) else ("all", "group-by-job")[p % 2]
            cases.append({"group": g, "name": b["name"], "jobs": b["jobs"], "variant": variant,
                          "uuid_seed": f"{seed}-{g}-{p}", "rng_seed": f"{seed}-{g}-{p}",
                          "work_dir": wd, "counts": b.get("counts", False)})
    stats["presentations_per_job_set"] = npres
    # long-stream presentation for small job sets: the distinguished job sits at positions
    # around powers of two / round numbers, cycling over the job sets
    suspects = [15, 16, 17, 31, 32, 33, 49, 50, 51, 63, 64, 65, 99, 100, 101, 127, 128, 129]
    npad = 0
    for g, b in enumerate(groups):
        if b.get("counts") or not (2 <= len(b["jobs"]) <= 8) or b["stratum"] != "S1":
            continue
        if sum(len(j) for j in b["jobs"]) > 80:
            continue
        if tier == "quick" and npad >= 54:
            break
        pos = suspects[npad % len(suspects)]
        npad += 1
        cases.append({"group": g, "name": b["name"], "jobs": b["jobs"],
                      "variant": f"padded:{pos}", "uuid_seed": f"{seed}-{g}-pad",
                      "rng_seed": f"{seed}-{g}-pad", "work_dir": wd, "counts": False})
    stats["padded_long_stream_presentations"] = npad
    # process-history presentation: the job set is converted AFTER other conversions in the
    # same interpreter - a twin of the definition over the same event names whose fork has one
    # type twice (counts > 1: same follower types, other multiplicities) and an unrelated job
    # set.  The answer may depend on the set of job graphs only, not on what the process
    # converted before (pv_streams_to_puml_files converts several job names per run).
    rngh = _r.Random(f"c03-history-{seed}")
    nhist = 0
    plain = [g for g, b in enumerate(groups)
             if not b.get("counts") and b["stratum"] == "S1" and len(b["jobs"]) <= 40]
    for g in plain:
        b = groups[g]
        if tier == "quick" and nhist >= 70:
            break
        twin = gen.counts_twin(b["src"], rngh)
        prelude = []
        if twin is not None:
            tj = lcase.complete_jobs(twin, 2, 120)
            if tj:
                prelude.append({"name": b["name"] + "-twin",
                                "jobs": [puml.job_to_json(j) for j in tj]})
        if not prelude and nhist % 3:
            continue        # fork-free definitions: every third gets an unrelated prelude only
        o = groups[rngh.choice(plain)]
        prelude.append({"name": o["name"] + "-other", "jobs": o["jobs"]})
        rngh.shuffle(prelude)
        nhist += 1
        cases.append({"group": g, "name": b["name"], "jobs": b["jobs"],
                      "variant": "after-conversions", "prelude": prelude,
                      "uuid_seed": f"{seed}-{g}-hist", "rng_seed": f"{seed}-{g}-hist",
                      "work_dir": wd, "counts": False})
    stats["process_history_presentations"] = nhist
    return groups, cases, stats


def judge_group(g: dict, rs: list[dict]) -> tuple[list[tuple[str, dict]], list[str]]:
    """Symptoms of one job set given the results of all its presentations, and the distinct
    parsable texts that still need a language comparison."""
    sym: list[tuple[str, dict]] = []
    pres = [{"variant": r["variant"], "hashseed": r.get("_hashseed")} for r in rs]
    bad_ing = [r for r in rs if not r.get("ingest_ok")]
    if bad_ing:
        sym.append(("ingestion:exception", {"exc": bad_ing[0].get("ingest_exc"),
                                            "presentation": bad_ing[0]["variant"]}))
    digests = {r.get("ingest_digest") for r in rs if r.get("ingest_ok")}
    if len(digests) > 1:
        sym.append(("ingestion:presentation-dependent", {"digests": sorted(digests)}))
    mism = [r for r in rs if r.get("ingest_ok") and not r.get("ingest_matches_reference")]
    if mism:
        sym.append(("ingestion:differs-from-reference",
                    {"presentation": mism[0]["variant"], "diff": mism[0].get("ingest_diff")}))
    ok = [r for r in rs if r["learn_ok"]]
    ko = [r for r in rs if not r["learn_ok"]]
    if g.get("counts"):
        # beyond F (counts > 1): the semantic oracle does not cover branch counts; demanded
        # is the same outcome and the same diagram up to branch order, with the same events
        # carrying a branch count
        if ok and ko:
            sym.append(("presentation-dependent:outcome",
                        {"failed": [(r["variant"], r["exc_type"]) for r in ko][:4]}))
        forms = {(r.get("nf"), tuple(r.get("bcnt_names", []))) for r in ok}
        if len(forms) > 1:
            sym.append(("presentation-dependent:diagram-with-branch-counts",
                        {"forms": [[str(f[0])[:400], list(f[1])] for f in list(forms)[:3]]}))
        return sym, []
    if ok and ko:
        sym.append(("presentation-dependent:outcome",
                    {"failed": [(r["variant"], r["exc_type"], r.get("where")) for r in ko][:4],
                     "succeeded": [r["variant"] for r in ok][:8]}))
    elif ko and len({r["exc_type"] for r in ko}) > 1:
        # all fail but differently: still failure everywhere, recorded only
        pass
    names = {tuple(r["names"]) for r in ok}
    if len(names) > 1:
        sym.append(("presentation-dependent:events", {"name_sets": [list(n) for n in names][:3]}))
    parsed = [r for r in ok if r.get("parsed")]
    if parsed and len(parsed) != len(ok):
        sym.append(("presentation-dependent:wellformedness",
                    {"unparsable": [r["variant"] for r in ok if not r.get("parsed")][:4]}))
    acc = {bool(r.get("rejected_jobs")) for r in parsed}
    if len(acc) > 1:
        sym.append(("presentation-dependent:language",
                    {"how": "some presentations' diagrams reject input jobs, others accept all",
                     "rejecting": [r["variant"] for r in parsed if r.get("rejected_jobs")][:4]}))
    texts: dict[str, str] = {}
    for r in parsed:
        texts.setdefault(r["nf"], r["puml"])
    return sym, list(texts.values()) if len(texts) > 1 else []


def main(tier: str, seed: int) -> int:
    chk = core.Check(
        PROP, tier, seed,
        rule="job sets: complete samples (S1, k=2) and random strict subsets (S2-eq/S2-neq) of "
             "corpus-63, exhaustive-small + random F_core and F_edge definitions; every job "
             "set is learned under N presentations (identity, job order, event order inside "
             "the job file, fresh event/job ids, shifted timestamps, a job supplied twice with "
             "the same / with new ids, all together, and one file per event with the files of "
             "different jobs interleaved through the real -group-by-job regrouping), each in a worker with its own "
             "PYTHONHASHSEED and uuid4 stream. distinct = distinct (definition, stratum, size); "
             "trivial = no fork or loop")
    chk.assumptions = [
        "janus stand-in /verif/shim; reference frontier semantics vlib/puml.py",
        "language comparison between presentations bounded at 2 loop iterations (enumerated; "
        "seeded walks above the cap)",
        "all presentations failing with the same exception class is consistent (judged by C01)",
    ]
    groups, cases, stats = workload(tier, seed)
    chk.extra["workload"] = stats
    hs = [(seed * 16 + i) % 4096 for i in range(16)]
    chk.extra["hashseeds"] = hs
    results, notes = core.run_workers("vlib.present", "run_present_case", cases,
                                      hashseeds=hs, chunks_per_proc=4, timeout=3000)
    for n in notes:
        chk.note_inconclusive(n)
    by_group: dict[int, list[dict]] = {}
    for r in results:
        if r.get("status") != "ok":
            chk.note_inconclusive(f"case {r.get('_idx')}: {r.get('status')} {r.get('detail')}")
            continue
        by_group.setdefault(r["group"], []).append(r)
    pending: dict[int, list[tuple[str, dict]]] = {}
    compare_cases = []
    obs = {"presentations_run": len(results), "job_sets": 0, "job_sets_one_normal_form": 0,
           "job_sets_several_normal_forms": 0, "max_normal_forms": 0,
           "distinct_hashseeds_per_job_set_min": 99, "ingestion_compared_with_reference": 0,
           "all_presentations_failed": 0, "language_pairs_compared": 0,
           "language_jobs_tested": 0}
    for g, rs in sorted(by_group.items()):
        obs["job_sets"] += 1
        sym, texts = judge_group(groups[g], rs)
        pending[g] = sym
        nfs = {r.get("nf") for r in rs if r.get("parsed")}
        obs["max_normal_forms"] = max(obs["max_normal_forms"], len(nfs))
        obs["job_sets_one_normal_form" if len(nfs) <= 1 else "job_sets_several_normal_forms"] += 1
        obs["distinct_hashseeds_per_job_set_min"] = min(
            obs["distinct_hashseeds_per_job_set_min"], len({r.get("_hashseed") for r in rs}))
        obs["ingestion_compared_with_reference"] += sum(1 for r in rs if r.get("ingest_ok"))
        if not any(r["learn_ok"] for r in rs):
            obs["all_presentations_failed"] += 1
        if texts:
            compare_cases.append({"group": g, "texts": texts[:6], "rng_seed": f"{seed}-cmp-{g}",
                                  "cap": 1200 if tier == "quick" else 3000})
    cres, notes2 = core.run_workers("vlib.present", "compare_texts_case", compare_cases,
                                    hashseeds=[0], chunks_per_proc=2, timeout=3000)
    for n in notes2:
        chk.note_inconclusive(n)
    for r in cres:
        if r.get("status") != "ok":
            chk.note_inconclusive(f"compare {r.get('_idx')}: {r.get('status')} {r.get('detail')}")
            continue
        obs["language_pairs_compared"] += r["pairs"]
        obs["language_jobs_tested"] += r["tested"]
        if r["diff"] is not None:
            c = compare_cases[r["_idx"]]
            d = dict(r["diff"])
            d["text_a"] = c["texts"][d["i"]].split("\n")
            d["text_b"] = c["texts"][d["j"]].split("\n")
            if not any(s == "presentation-dependent:language" for s, _ in pending[r["group"]]):
                pending[r["group"]].append(("presentation-dependent:language", d))
    per_stratum: dict[str, dict[str, int]] = {}
    for g, sym in sorted(pending.items()):
        b = groups[g]
        key = core.digest([repr(puml.normal_form(b["src"])), b["stratum"], len(b["jobs"])])
        nontrivial = puml.has_kind(b["src"], ("and", "or", "xor", "loop"))
        chk.case(key, nontrivial)
        st = per_stratum.setdefault(f"{b['kind']}/{b['stratum']}", {"job_sets": 0, "flagged": 0})
        st["job_sets"] += 1
        if sym:
            st["flagged"] += 1
        for s, detail in sym:
            witness = {"group_case": {k: b.get(k) for k in ("name", "kind", "src", "tags",
                                                            "stratum", "k", "jobs",
                                                            "counts")},
                       "seed": seed, "group": g, "tier": tier, "detail": detail,
                       "presentations": [{"variant": r["variant"], "hashseed": r.get("_hashseed"),
                                          "uuid_seed": r.get("uuid_seed"),
                                          "rng_seed": r.get("rng_seed"),
                                          "prelude": cases[r["_idx"]].get("prelude"),
                                          "ok": r["learn_ok"], "exc": r.get("exc_type"),
                                          "nf_digest": core.digest(r.get("nf")) if r.get("nf")
                                          else None} for r in by_group[g]]}
            chk.violation(s, witness, b["tags"])
        if len(chk.samples) < 4 and nontrivial and len(b["jobs"]) <= 4:
            chk.samples.append({"definition": puml.to_text(b["src"], b["name"]).split("\n"),
                                "stratum": b["stratum"],
                                "presentations": [(r["variant"], r.get("_hashseed"),
                                                   r["learn_ok"]) for r in by_group[g]],
                                "distinct_normal_forms": len({r.get("nf") for r in by_group[g]
                                                              if r.get("parsed")})})
    chk.extra["monitor_observations"] = obs
    chk.extra["per_stratum"] = per_stratum
    if obs["job_sets"] and obs["distinct_hashseeds_per_job_set_min"] < 2:
        chk.note_inconclusive("a job set saw fewer than 2 distinct hash seeds")
    if obs["ingestion_compared_with_reference"] == 0:
        chk.note_inconclusive("ingestion monitor never ran")
    return chk.finish()


def replay(path: str) -> int:
    with open(path) as fh:
        data = json.load(fh)
    w = data["case"]
    b = w["group_case"]
    seed, g = w["seed"], w["group"]
    cases = [{"group": 0, "name": b["name"], "jobs": b["jobs"], "variant": p["variant"],
              "uuid_seed": p.get("uuid_seed") or f"{seed}-{g}-{i}",
              "rng_seed": p.get("rng_seed") or f"{seed}-{g}-{i}",
              "work_dir": core.work_dir(), "counts": b.get("counts", False),
              **({"prelude": p["prelude"]} if p.get("prelude") else {})}
             for i, p in enumerate(w["presentations"])]
    bad = False
    rs = []
    for c, pinfo in zip(cases, w["presentations"]):
        r, _ = core.run_workers("vlib.present", "run_present_case", [c], nproc=1,
                                hashseeds=[pinfo.get("hashseed") or 0])
        rs += r
    for r in rs:
        print(r["variant"], r.get("_hashseed"), "ok" if r["learn_ok"] else r.get("exc_type"),
              core.digest(r.get("nf")) if r.get("nf") else None)
    sym, texts = judge_group(b, rs)
    if texts:
        cr, _ = core.run_workers("vlib.present", "compare_texts_case",
                                 [{"group": 0, "texts": texts[:6], "rng_seed": "r"}], nproc=1)
        if cr and cr[0].get("diff"):
            sym.append(("presentation-dependent:language", cr[0]["diff"]))
    for s, d in sym:
        print(s, json.dumps(d)[:500])
        bad = True
    if bad:
        print(f"VIOLATION property={PROP} replay={path}")
        return 1
    return 0
