"""C08 - call trees are sequenced exactly as documented (DESIGN.md 3.8).

The real `sequence_otel_job_id_streams` is driven with generated span trees and
configurations; every emitted PV job is compared with the reference sequencer written from
sequencer_HOWTO.md (vlib/refseq.py), field by field and link by link, plus the derived
order properties (acyclic, every span after all its descendants, start events)."""
from __future__ import annotations

import itertools
import json
import random
from datetime import datetime, timedelta, timezone

from vlib import core, refseq

EPOCH = datetime(1970, 1, 1, tzinfo=timezone.utc)


def _ts_ok(got: str, ns: int) -> bool:
    def fmt(us: int) -> str:
        dt = EPOCH + timedelta(microseconds=us)
        return dt.strftime("%Y-%m-%dT%H:%M:%S.") + "%06dZ" % dt.microsecond
    return got in (fmt(ns // 1000), fmt(ns // 1000 + 1)) if ns % 1000 else got == fmt(ns // 1000)


def _drive(spans: dict, order: list[str], async_flag: bool, groups: dict, rename: dict):
    return _drive_many([(spans, order)], async_flag, groups, rename)


def _drive_many(traces: list[tuple[dict, list[str]]], async_flag: bool, groups: dict,
                rename: dict, collect_first: bool = False):
    """One call of the real sequencer over several traces (the way otel_to_pv uses it)."""
    from tel2puml.otel_to_pv.otel_to_pv_types import OTelEvent, OTelEventTypeMap
    from tel2puml.otel_to_pv.sequence_otel import sequence_otel_job_id_streams
    streams = [[
        OTelEvent(job_name=s["job_name"], job_id=s["job_id"], event_type=s["type"],
                  event_id=s["id"], start_timestamp=s["start"], end_timestamp=s["end"],
                  application_name=s["app"], parent_event_id=s["parent"],
                  child_event_ids=list(s["children"]))
        for s in (spans[i] for i in order)
    ] for spans, order in traces]
    rn = {t: OTelEventTypeMap(mapped_event_type=m, child_event_types=set(c))
          for t, (m, c) in rename.items()} or None
    if collect_first:
        # a consumer that first collects the per-trace generators and reads them afterwards
        gens = list(sequence_otel_job_id_streams(streams, async_flag, groups or None, rn))
        return [list(g) for g in gens]
    out = []
    for job in sequence_otel_job_id_streams(streams, async_flag, groups or None, rn):
        out.append(list(job))
    return out


def companion(spans: dict, rng: random.Random, tag: str, alphabet: list[str]) -> dict:
    """The same tree and windows as another trace of the same workflow: new ids, types drawn
    again from `alphabet`."""
    ren = {k: f"{tag}-{k}" for k in spans}
    return {ren[k]: dict(s, id=ren[k], job_id="trace-" + tag, type=rng.choice(alphabet),
                         parent=ren[s["parent"]] if s["parent"] else None,
                         children=[ren[c] for c in s["children"]])
            for k, s in spans.items()}


def judge(spans: dict, root: str, async_flag: bool, groups: dict, rename: dict,
          order: list[str], pv: list | None = None) -> tuple[str, dict | None]:
    """('held'|'skip:<why>'|'violated:<symptom>', detail).  pv: the job already emitted for
    this trace by a call that sequenced several traces at once."""
    types = refseq.apply_rename(spans, rename)
    orig_types = {k: s["type"] for k, s in spans.items()}
    want = refseq.reference(spans, root, async_flag, groups, types)
    if rename and groups and refseq.reference(spans, root, async_flag, groups, orig_types) != want:
        return "skip:rename-x-groups (lookup by original or renamed type not documented)", None
    if async_flag:
        if refseq.reference(spans, root, True, groups, types, strict_overlap=True) != want:
            return "skip:touching windows (end == start; strictness not documented)", None
        if groups and refseq.reference(spans, root, True, groups, types, span_level=True) != want:
            return "skip:async-x-groups (unit-level vs span-level overlap not documented)", None
    if pv is None:
        try:
            jobs = _drive(spans, order, async_flag, groups, rename)
        except Exception as exc:
            return f"violated:exception:{type(exc).__name__}", {"exc": repr(exc)[:300]}
        if len(jobs) != 1:
            return "violated:job-count", {"jobs": len(jobs)}
        pv = jobs[0]
    ids = [e["eventId"] for e in pv]
    if sorted(ids) != sorted(spans):
        return "violated:span-missing-or-duplicated", {"got": sorted(ids), "want": sorted(spans)}
    got_prev = {}
    for e in pv:
        s = spans[e["eventId"]]
        for fld, w in (("jobId", s["job_id"]), ("jobName", s["job_name"]),
                       ("eventType", types[s["id"]]), ("applicationName", s["app"])):
            if e.get(fld) != w:
                return f"violated:field:{fld}", {"event": e, "want": w}
        if not _ts_ok(e.get("timestamp", ""), s["end"]):
            return "violated:field:timestamp", {"event": e, "end_ns": s["end"]}
        p = e.get("previousEventIds", [])
        if len(set(p)) != len(p):
            return "violated:duplicate-link", {"event": e}
        got_prev[e["eventId"]] = frozenset(p)
    if got_prev != want:
        diff = {k: [sorted(got_prev[k]), sorted(want[k])] for k in want if got_prev[k] != want[k]}
        return "violated:links-differ-from-documented-rule", {"got_vs_want": diff}
    # derived order properties (redundant with equality to the reference; checked directly)
    after: dict[str, set] = {}

    def anc(x: str) -> set:
        if x not in after:
            after[x] = set()
            for p in got_prev[x]:
                after[x] |= {p} | anc(p)
        return after[x]
    for sid in spans:
        try:
            if sid in anc(sid):
                return "violated:cycle", {"span": sid}
        except RecursionError:
            return "violated:cycle", {"span": sid}
    for sid, s in spans.items():
        stack = list(s["children"])
        while stack:
            c = stack.pop()
            if c not in anc(sid):
                return "violated:span-not-after-descendant", {"span": sid, "descendant": c}
            stack.extend(spans[c]["children"])
    starts = [k for k, v in got_prev.items() if not v]
    if not async_flag and not groups and len(starts) != 1:
        return "violated:several-start-events-under-sync", {"starts": starts}
    return "held", None


# ---------------------------------------------------------------------------- worker side
def run_chunk(case: dict) -> dict:
    counts: dict[str, int] = {}
    fails: list[dict] = []
    shapes: set = set()
    samples: list = []
    n_eval = 0

    def bump(k: str) -> None:
        counts[k] = counts.get(k, 0) + 1

    def record(verdict: str, detail, spans, root, async_flag, groups, rename, order, call=None):
        bump(verdict.split(":")[0] if not verdict.startswith("skip") else verdict)
        if verdict.startswith("violated") and len(fails) < 5:
            fails.append({"symptom": verdict[9:], "detail": detail,
                          "case": {"spans": spans, "root": root, "async": async_flag,
                                   "groups": groups,
                                   "rename": {k: [m, sorted(c)] for k, (m, c) in rename.items()},
                                   "order": order, "call": call}})

    if case["kind"] == "exh":
        it = refseq.exhaustive_cases(case["n"], case["grid"])
        for idx, c in enumerate(it):
            if idx % case["of"] != case["slice"]:
                continue
            spans, root, groups, rename = refseq.build_exhaustive(c)
            order = list(spans)
            v, d = judge(spans, root, c["async"], groups, rename, order)
            n_eval += 1
            record(v, d, spans, root, c["async"], groups, rename, order)
            shapes.add((c["parents"], c["iv"], c["async"], c["gv"]))
            if len(samples) < 1 and idx % 977 == case["slice"]:
                samples.append({"parents": c["parents"], "intervals": c["iv"],
                                "async": c["async"], "groups": groups})
        distinct = len(shapes)
    else:
        rng = random.Random(case["rng_seed"])
        for _ in range(case["count"]):
            spans, root, async_flag, groups, rename, kind = refseq.random_case(
                rng, case.get("max_spans", 30))
            order = list(spans)
            rng.shuffle(order)
            v, d = judge(spans, root, async_flag, groups, rename, order)
            n_eval += 1
            bump("kind:" + kind)
            bump("mode:" + ("async" if async_flag else "sync") + ("+groups" if groups else "")
                 + ("+rename" if rename else ""))
            record(v, d, spans, root, async_flag, groups, rename, order)
            if len(spans) >= 2 and rng.random() < (0.3 if (rename or groups) else 0.06):
                # several traces of the workflow in ONE call, as otel_to_pv does: the trace
                # itself, a twin with other types and one without any renamable type
                alpha = sorted({s["type"] for s in spans.values()} | set(rename) | set(groups))
                plain = [a for a in alpha if a not in rename] or alpha
                traces = [(spans, root, order)]
                for tag, al in (("t2", alpha), ("t3", plain)):
                    sp2 = companion(spans, rng, tag, al)
                    o2 = list(sp2)
                    rng.shuffle(o2)
                    traces.append((sp2, f"{tag}-{root}", o2))
                rng.shuffle(traces)
                try:
                    collect = rng.random() < 0.5
                    bump("multi_trace_calls_collect_then_read" if collect
                         else "multi_trace_calls_read_in_order")
                    jobs = _drive_many([(t[0], t[2]) for t in traces], async_flag, groups, rename,
                                       collect_first=collect)
                    by_job = {j[0]["jobId"]: j for j in jobs if j}
                    call = {"traces": [[t[0], t[1], t[2]] for t in traces], "collect_first": collect}
                    if len(jobs) != len(traces) or len(by_job) != len(traces):
                        v, d = "violated:multi-trace:job-count", {"jobs": len(jobs)}
                        record(v, d, spans, root, async_flag, groups, rename, order, call)
                    else:
                        for sp_i, root_i, o_i in traces:
                            jid = next(iter(sp_i.values()))["job_id"]
                            v, d = judge(sp_i, root_i, async_flag, groups, rename, o_i,
                                         pv=by_job.get(jid, []))
                            if v.startswith("violated"):
                                v = "violated:multi-trace:" + v[9:]
                                d = dict(d or {}, position_in_call=[t[1] for t in traces].index(root_i),
                                         traces_in_call=len(traces))
                            n_eval += 1
                            bump("multi_trace_call_jobs")
                            record(v, d, sp_i, root_i, async_flag, groups, rename, o_i,
                                   call if v.startswith("violated") else None)
                except Exception as exc:  # noqa: BLE001 - the sequencer is code under test
                    record(f"violated:multi-trace:exception:{type(exc).__name__}",
                           {"exc": repr(exc)[:300]}, spans, root, async_flag, groups, rename, order,
                           {"traces": [[t[0], t[1], t[2]] for t in traces],
                            "collect_first": collect})
            key = core.digest([[s["type"], s["parent"], s["start"], s["end"]]
                               for s in spans.values()] + [async_flag, groups, sorted(rename)])
            if len(spans) > 1:
                shapes.add(key)
            if len(samples) < 1 and len(spans) in (4, 5, 6):
                samples.append({"spans": [[s["id"], s["type"], s["parent"], s["start"], s["end"]]
                                          for s in spans.values()], "async": async_flag,
                                "groups": groups,
                                "rename": {k: [m, sorted(c)] for k, (m, c) in rename.items()}})
        distinct = len(shapes)
    return {"status": "ok", "n": n_eval, "distinct": distinct, "counts": counts,
            "fails": fails, "samples": samples, "kind": case["kind"]}


# ---------------------------------------------------------------------------- driver side
def build_cases(tier: str, seed: int) -> list[dict]:
    cases = []
    P = core.NPROC
    if tier == "quick":
        exh = [(1, 4), (2, 4), (3, 4), (4, 4)]
        n_rand = 16000
    else:
        exh = [(1, 5), (2, 5), (3, 5), (4, 5)]
        n_rand = 120000
    for n, grid in exh:
        of = P if n >= 3 else 1
        for sl in range(of):
            cases.append({"kind": "exh", "n": n, "grid": grid, "slice": sl, "of": of})
    for i in range(P):
        cases.append({"kind": "rand", "rng_seed": f"c08-{seed}-{i}", "count": n_rand // P,
                      "max_spans": 30})
    return cases


def main(tier: str, seed: int) -> int:
    chk = core.Check(
        "C08", tier, seed,
        rule="(a) exhaustive: every rooted tree shape with <=4 spans x every assignment of "
             "integer-grid windows to the non-root spans with distinct sibling starts x "
             "{sync,async} x 4 prior-information variants; (b) seeded random trees of 1..30 "
             "spans (plain, long-span-overlapping-later-short-ones, nested windows, deep, wide) "
             "x random async flag / group maps / rename maps, spans presented in shuffled "
             "order; for ~30% of the configured cases the trace, a re-typed twin and a twin "
             "without renamable types go through ONE sequencer call in shuffled order, each "
             "emitted job judged on its own. distinct = distinct (shape, windows, config) tuples; single-span trees "
             "count as trivial in (b)")
    chk.assumptions = [
        "reference sequencer = my reading of docs/user/sequencer_HOWTO.md (vlib/refseq.py)",
        "skipped, not judged: touching windows (end==start), async x multi-span groups where "
        "unit-level and span-level overlap differ, rename x groups lookups that depend on "
        "whether the original or renamed type is used, rename chains (not generated)",
        "start events: exactly one under sync without groups; otherwise the first sibling unit",
    ]
    results, notes = core.run_workers("checks.c08", "run_chunk", build_cases(tier, seed),
                                      chunks_per_proc=8, case_wall=5000, timeout=6000)
    for n in notes:
        chk.note_inconclusive(n)
    distinct = 0
    exh_total = 0
    for r in results:
        if r.get("status") != "ok":
            chk.note_inconclusive(f"worker: {r.get('status')} {r.get('detail')}")
            continue
        chk.evaluations += r["n"]
        distinct += r["distinct"]
        if r["kind"] == "exh":
            exh_total += r["n"]
        for k, v in r["counts"].items():
            if k.startswith("skip:"):
                chk.skipped[k[5:]] = chk.skipped.get(k[5:], 0) + v
            else:
                chk.count(k, v)
        for s in r["samples"]:
            if len(chk.samples) < 6:
                chk.samples.append(s)
        for f in r["fails"]:
            tags = ["async" if f["case"]["async"] else "sync"]
            if f["case"]["groups"]:
                tags.append("groups")
            if f["case"]["rename"]:
                tags.append("rename")
            chk.violation(f["symptom"], {"detail": f["detail"], **f["case"]}, tags)
    chk.distinct = {str(i) for i in range(distinct)}
    chk.extra["exhaustive_cases"] = exh_total
    chk.extra["exhaustive_subspace"] = "trees <=4 spans on the integer grid (see rule a)"
    if chk.extra.get("held", 0) == 0:
        chk.note_inconclusive("no case was judged")
    return chk.finish()


def replay(path: str) -> int:
    with open(path) as fh:
        data = json.load(fh)
    c = data["case"]
    case = {"spans": c["spans"], "root": c["root"], "async": c["async"], "groups": c["groups"],
            "rename": c["rename"], "order": c["order"], "call": c.get("call")}
    results, notes = core.run_workers("checks.c08", "run_replay", [case], nproc=1)
    print(json.dumps(results, indent=1)[:3000])
    bad = any(r.get("verdict", "").startswith("violated") for r in results)
    if bad:
        print(f"VIOLATION property=C08 replay={path}")
    return 1 if bad else (0 if results else 2)


def run_replay(case: dict) -> dict:
    rename = {k: (m, c) for k, (m, c) in case["rename"].items()}
    call = case.get("call")
    if call:
        # the violation was seen in ONE sequencer call over several traces: repeat that call
        try:
            jobs = _drive_many([(t[0], t[2]) for t in call["traces"]], case["async"],
                               case["groups"], rename, collect_first=call["collect_first"])
        except Exception as exc:  # noqa: BLE001
            return {"status": "ok", "verdict": f"violated:multi-trace:exception:{type(exc).__name__}",
                    "detail": repr(exc)[:300]}
        by_job = {j[0]["jobId"]: j for j in jobs if j}
        if len(jobs) != len(call["traces"]) or len(by_job) != len(call["traces"]):
            return {"status": "ok", "verdict": "violated:multi-trace:job-count", "detail": None}
        for sp_i, root_i, o_i in call["traces"]:
            jid = next(iter(sp_i.values()))["job_id"]
            v, d = judge(sp_i, root_i, case["async"], case["groups"], rename, o_i,
                         pv=by_job.get(jid, []))
            if v.startswith("violated"):
                return {"status": "ok", "verdict": "violated:multi-trace:" + v[9:], "detail": d}
        return {"status": "ok", "verdict": "held", "detail": None}
    v, d = judge(case["spans"], case["root"], case["async"], case["groups"], rename,
                 case["order"])
    return {"status": "ok", "verdict": v, "detail": d}
