"""C07 - loop extraction leaves an acyclic, complete, non-overlapping nesting
(DESIGN.md 3.7).  Monitor on the top-level detect_loops call of the real pipeline."""
from __future__ import annotations

from vlib import core, lcase, lcheck, puml

ASPECTS = {"loops"}
PROP = "C07"


def workload(tier: str, seed: int) -> tuple[list[dict], dict]:
    if tier == "quick":
        want = {"corpus": 1, "core-exh": 100000, "core-rand": 300, "edge": 60, "start-block": 40,
                "loop-families": 1}
        ks = (2,)
    else:
        want = {"corpus": 1, "core-exh": 100000, "core-rand": 4000, "edge": 400,
                "start-block": 600, "loop-families": 1}
        ks = (2, 3)
    defs = [d for d in lcase.definitions(tier, seed + 3000, want)
            if puml.has_kind(d["ast"], ("loop",))]
    if tier == "quick":
        caps = {"corpus": 100, "core-exh": 90, "core-rand": 25, "edge": 40, "start-block": 100,
                "loop-families": 100}
        seen: dict[str, int] = {}
        kept = []
        for d in defs:
            seen[d["kind"]] = seen.get(d["kind"], 0) + 1
            if seen[d["kind"]] <= caps.get(d["kind"], 0):
                kept.append(d)
        defs = kept
    cases, stats = lcase.s1_cases(defs, seed, k_list=ks, schedules=1, check_extra=False,
                                  watch_loops=True)
    c2, st2 = lcase.s2_cases(defs, seed, per_def=1, watch_loops=True)
    stats.update(st2)
    stats["definitions_with_loops"] = len(defs)
    return cases + c2, stats


def main(tier: str, seed: int) -> int:
    chk = core.Check(
        PROP, tier, seed,
        rule="every definition of the learner workload that contains a loop (corpus loop cases, "
             "F_core, F_edge; nested, with breaks, with forks inside; plus - beyond F - fork "
             "branches inside loops that start directly with a block); the real pipeline prefix "
             "ingestion -> create_graph_from_events -> detect_loops runs inside pv_to_puml_string "
             "and the graph returned by the top-level detect_loops is walked recursively. "
             "distinct = distinct (definition, stratum, k, size); all cases contain a loop")
    chk.assumptions = [
        "janus stand-in /verif/shim",
        "dummy nodes (|||START|||, |||END|||, DUMMY_BREAK*, LOOP*) are excluded from conservation",
    ]
    cases, stats = workload(tier, seed)
    chk.extra["workload"] = stats
    seen = {"calls": 0, "loops": 0, "max_depth": 0, "break_events": 0, "fork_in_loop": 0,
            "cyclic_sccs": 0}

    def on_result(c: dict, r: dict) -> None:
        for rep in r.get("loops", []) or []:
            seen["calls"] += 1
            s = rep["stats"]
            seen["loops"] += s["loops"]
            seen["max_depth"] = max(seen["max_depth"], s["max_depth"])
            seen["break_events"] += s["break_events"]
            seen["fork_in_loop"] += s["fork_in_loop"]
            seen["cyclic_sccs"] += s["input_sccs_cyclic"]

    hs = [(seed + 300 + i) % 4096 for i in range(8)]
    chk.extra["hashseeds"] = hs
    lcheck.run(chk, cases, ASPECTS, on_result=on_result, hashseeds=hs)
    chk.extra["monitor_observations"] = seen
    if seen["calls"] == 0:
        chk.note_inconclusive("detect_loops monitor never fired")
    if seen["loops"] < 20:
        chk.note_inconclusive(f"only {seen['loops']} loops observed")
    if seen["max_depth"] < 2:
        chk.note_inconclusive("no nested loop (depth 2) observed")
    if seen["break_events"] == 0:
        chk.note_inconclusive("no break event observed")
    if seen["fork_in_loop"] == 0:
        chk.note_inconclusive("no fork inside a loop observed")
    return chk.finish()


def replay(path: str) -> int:
    return lcheck.replay_case(PROP, path, ASPECTS)
