"""C15 - re-running against a persisted store is repeatable (DESIGN.md 3.15).
Histories of separate-process CLI runs over one SQLite file."""
from __future__ import annotations

import itertools
import json
import os
import random
import shutil
import sqlite3
import tempfile
from typing import Any

from vlib import core, otelgen, store

PROP = "C15"
NAMES = ["wfA", "wf B", "wfC"]
TYPES = ["a", "b", "c"]


def flags_str(r: dict) -> str:
    return ("ingest" if r["ingest"] else "no-ingest") + ("+ug" if r["ug"] else "") + \
        ("+se" if r["se"] else "")


# ----------------------------------------------------------------------------- worker side
def _dataset(rng: random.Random, n_traces: int, tb: int) -> tuple[list[dict], dict]:
    st = store.gen_store(rng, min(n_traces, 14), NAMES, TYPES, max_spans=5, hostile=True, span_minutes=30)
    traces = st["traces"]
    base, total = st["base"], st["total"]
    # pin the window: one tiny trace at the very start and one at the very end, and make
    # sure a dangling-parent trace exists
    for tag, t0 in (("first", base), ("last", base + total)):
        tree = store.rand_tree(rng, 2, TYPES)
        traces.append({"job_id": f"tr-{tag}", "name": NAMES[0], "kind": "complete",
                       "spans": store.materialise(tree, f"tr-{tag}", NAMES[0], t0, rng, 10**6)})
    # zero-duration single-span traces sitting exactly on the extremes of the ingested data
    # (window edges are inclusive: with time_buffer 0 they are inside, and every run -
    # ingesting or not - has to agree on that)
    lo = min(s["start_timestamp"] for t in traces for s in t["spans"])
    hi = max(s["end_timestamp"] for t in traces for s in t["spans"])
    for tag, t0 in (("instant-first", lo), ("instant-last", hi)):
        traces.append({"job_id": f"tr-{tag}", "name": NAMES[2], "kind": "complete", "spans": [{
            "job_name": NAMES[2], "job_id": f"tr-{tag}", "event_type": "heartbeat-" + tag,
            "event_id": f"tr-{tag}.0", "start_timestamp": t0, "end_timestamp": t0,
            "application_name": "app", "parent_event_id": None}]})
    # traces placed relative to the time window [lo + buffer, hi - buffer], each with a shape
    # of its own: spanning the whole window with both end points (and all children) in the
    # buffer zones, and reaching into the window from either buffer zone
    z = max(tb, 1) * store.MIN
    for tag, (r0, r1), kids in (
            ("straddle", (lo + z // 3, hi - z // 3),
             [(lo + z // 3, lo + z // 2), (hi - z // 2, hi - z // 3)]),
            ("reach-in-start", (lo + z // 3, lo + 2 * z), [(lo + z // 3, lo + z // 2)]),
            ("reach-in-end", (hi - 2 * z, hi - z // 3), [(hi - z // 2, hi - z // 3)])):
        jid = f"tr-{tag}"
        sp = [{"job_name": NAMES[0], "job_id": jid, "event_type": f"{tag}-root",
               "event_id": f"{jid}.0", "start_timestamp": r0, "end_timestamp": r1,
               "application_name": "app", "parent_event_id": None}]
        for k, (c0, c1) in enumerate(kids):
            sp.append({"job_name": NAMES[0], "job_id": jid, "event_type": f"{tag}-kid{k}",
                       "event_id": f"{jid}.{k + 1}", "start_timestamp": c0, "end_timestamp": c1,
                       "application_name": "app", "parent_event_id": f"{jid}.0"})
        traces.append({"job_id": jid, "name": NAMES[0], "kind": "complete", "spans": sp})
    tree = store.rand_tree(rng, 3, TYPES)
    sp = store.materialise(tree, "tr-dangling", NAMES[1], base + total // 2, rng, 10**6)
    sp[-1]["parent_event_id"] = "tr-dangling.missing"
    traces.append({"job_id": "tr-dangling", "name": NAMES[1], "kind": "dangling-leaf", "spans": sp})
    # a few exact shape repeats under the same name
    for i in range(3):
        src = rng.choice([t for t in traces if t["kind"] == "complete"])
        jid = f"tr-copy{i}"
        t0 = base + int(rng.uniform(0.2, 0.8) * total)
        m = {s["event_id"]: f"{jid}.{j}" for j, s in enumerate(src["spans"])}
        t_first = min(s["start_timestamp"] for s in src["spans"])
        cp = [dict(s, job_id=jid, event_id=m[s["event_id"]],
                   parent_event_id=m.get(s["parent_event_id"]) if s["parent_event_id"] else None,
                   start_timestamp=s["start_timestamp"] - t_first + t0,
                   end_timestamp=s["end_timestamp"] - t_first + t0) for s in src["spans"]]
        traces.append({"job_id": jid, "name": src["name"], "kind": "complete", "spans": cp})
    if n_traces >= 100:
        # large data set: more spans than the default batch size of 1000
        for i in range(n_traces):
            tree = store.rand_tree(rng, rng.randint(4, 7), TYPES)
            jid = f"tr-big{i}"
            traces.append({"job_id": jid, "name": rng.choice(NAMES), "kind": "complete",
                           "spans": store.materialise(tree, jid, NAMES[i % 3],
                                                      base + int(rng.uniform(0.1, 0.9) * total),
                                                      rng, 10**6)})
        for t in traces[-n_traces:]:
            for sp in t["spans"]:
                sp["job_name"] = t["name"]
    stream = store.flatten(st, rng, "shuffled")
    return stream, st


def _db_digest(path: str) -> dict:
    if not os.path.exists(path):
        return {"nodes": None}
    con = sqlite3.connect(path)
    try:
        rows = con.execute("SELECT event_id, job_id, job_name, event_type, parent_event_id "
                           "FROM nodes ORDER BY event_id").fetchall()
        assoc = con.execute("SELECT count(*) FROM NODE_ASSOCIATION").fetchone()[0]
        try:
            hashes = con.execute("SELECT count(*) FROM job_hashes").fetchone()[0]
        except sqlite3.Error:
            hashes = None
        return {"nodes": core.digest(rows), "n_nodes": len(rows), "n_assoc": assoc,
                "n_job_hashes": hashes}
    finally:
        con.close()


def _run_cli(wd: str, cfg: str, out: str, r: dict) -> dict:
    args = ["-o", out, "otel2pv", "-c", cfg]
    if not r["ingest"]:
        args.append("-ni")
    if r["ug"]:
        args.append("-ug")
    if r["se"]:
        args.append("-se")
    return otelgen.cli(args, wd)


def _shape_sets(pv: dict, shape_of_job: dict) -> dict[str, list]:
    """{workflow: sorted list of shapes represented} + duplicates info."""
    out = {}
    for wf, jobs in pv.items():
        out[wf] = sorted(repr(shape_of_job.get(j)) for j in jobs)
    return out


def _tiny_dataset(rng: random.Random) -> tuple[list[dict], dict]:
    """Fewer than ten stored rows: two or three traces of ONE workflow and ONE call-tree shape
    whose sibling spans run in opposite time order (same shape, different PV sequence), the
    first-delivered trace NOT having the smallest trace id."""
    base = 1_700_000_000 * 10**9
    traces = []
    n = rng.choice([2, 3])
    ids = [f"tw-{9 - k}" for k in range(n)]
    for k, jid in enumerate(ids):
        a, b = (("x", "y") if k % 2 == 0 else ("y", "x"))
        t0 = base + k * 10**9
        sp = [{"job_name": NAMES[0], "job_id": jid, "event_type": "root", "event_id": f"{jid}.0",
               "start_timestamp": t0, "end_timestamp": t0 + 9 * 10**6, "application_name": "app",
               "parent_event_id": None}]
        for j, ty in enumerate((a, b)):
            sp.append({"job_name": NAMES[0], "job_id": jid, "event_type": ty,
                       "event_id": f"{jid}.{j + 1}", "start_timestamp": t0 + (1 + 3 * j) * 10**6,
                       "end_timestamp": t0 + (3 + 3 * j) * 10**6, "application_name": "app",
                       "parent_event_id": f"{jid}.0"})
        traces.append({"job_id": jid, "name": NAMES[0], "kind": "complete", "spans": sp})
    st = {"traces": traces, "base": base, "total": n * 10**9}
    return [s for t in traces for s in t["spans"]], st


def _all_cleaned_dataset(rng: random.Random) -> tuple[list[dict], dict]:
    """Every delivered trace is removed by cleaning (dangling parents): the store is empty
    when the unique-graph search and the streaming run."""
    base = 1_700_000_000 * 10**9
    traces = []
    for k in range(rng.choice([1, 2])):
        tree = store.rand_tree(rng, 3, TYPES)
        jid = f"tr-gone{k}"
        sp = store.materialise(tree, jid, NAMES[k % 2], base + k * 10**9, rng, 10**6)
        sp[-1]["parent_event_id"] = f"{jid}.missing"
        traces.append({"job_id": jid, "name": NAMES[k % 2], "kind": "dangling-leaf", "spans": sp})
    st = {"traces": traces, "base": base, "total": 2 * 10**9}
    return [s for t in traces for s in t["spans"]], st


def run_history(case: dict) -> dict:
    rng = random.Random(case["rng_seed"])
    tb, bs = case["time_buffer"], case["batch_size"]
    if case.get("dataset") == "tiny":
        stream, st = _tiny_dataset(rng)
    elif case.get("dataset") == "all-cleaned":
        stream, st = _all_cleaned_dataset(rng)
    else:
        stream, st = _dataset(rng, case["n_traces"], tb)
    out_spans = len(stream)
    wd = tempfile.mkdtemp(prefix="c15-", dir=case["work_dir"])
    out: dict[str, Any] = {"status": "ok", "violations": [], "runs": [], "cli_runs": 0,
                           "spans": out_spans}
    try:
        special = case.get("dataset") in ("tiny", "all-cleaned")
        docs = otelgen.spans_to_documents(stream, rng, nfiles=1 if special else rng.randint(1, 3),
                                          dup_rate=0.0 if special else case.get("dup_rate", 0.05))
        otelgen.write_dataset(os.path.join(wd, "in"), docs)
        shape_of_job = {t["job_id"]: store.shape_of(t["spans"]) for t in st["traces"]}

        def fresh(tag: str, r: dict) -> tuple[dict, dict]:
            cfg = os.path.join(wd, f"cfg_{tag}.yaml")
            otelgen.write_config(cfg, os.path.join(wd, "in"),
                                 "sqlite:///" + os.path.join(wd, f"{tag}.db"), bs, tb)
            res = _run_cli(wd, cfg, os.path.join(wd, f"out_{tag}"), r)
            out["cli_runs"] += 1
            return res, otelgen.read_saved_pv(os.path.join(wd, f"out_{tag}"))
        need_plain = any(r["se"] for r in case["runs"])
        need_ug = any(r["se"] and r["ug"] for r in case["runs"])
        base_plain = base_ug = None
        if need_plain:
            res, base_plain = fresh("base_plain", {"ingest": True, "ug": False, "se": True})
            if res["rc"] != 0:
                out["baseline_failed"] = res["out"][-500:]
                return out
        if need_ug:
            res, base_ug = fresh("base_ug", {"ingest": True, "ug": True, "se": True})
            if res["rc"] != 0:
                out["baseline_failed"] = res["out"][-500:]
                return out
            # sanity of the baseline itself: one representative per (workflow, shape)
            for wf, shapes in _shape_sets(base_ug, shape_of_job).items():
                if len(shapes) != len(set(shapes)):
                    out["baseline_ug_has_duplicate_shapes"] = True
        out["survivor_jobs"] = sum(len(j) for j in (base_plain or {}).values())
        out["workflows"] = len(base_plain or {})
        cfg = os.path.join(wd, "cfg.yaml")
        db = os.path.join(wd, "store.db")
        otelgen.write_config(cfg, os.path.join(wd, "in"), "sqlite:///" + db, bs, tb)
        first_digest = None
        ingested_yet = False
        first_ug_pv = None
        for i, r in enumerate(case["runs"]):
            o = os.path.join(wd, f"out{i}")
            res = _run_cli(wd, cfg, o, r)
            out["cli_runs"] += 1
            dg = _db_digest(db)
            rec = {"flags": flags_str(r), "rc": res["rc"], "db": dg}
            out["runs"].append(rec)
            if not ingested_yet and not r["ingest"]:
                # a run on a store nothing was ever ingested into: its own outcome is
                # information only; what it leaves behind is judged through the later runs
                rec["before_first_ingest"] = True
                continue
            ingested_yet = True
            if res["rc"] != 0:
                out["violations"].append({
                    "symptom": "run-fails:" + ("first" if i == 0 else "later"),
                    "detail": {"run": i, "flags": flags_str(r), "output": res["out"][-700:],
                               "history": [flags_str(x) for x in case["runs"][:i + 1]]}})
                break
            if first_digest is None:
                first_digest = dg["nodes"]
            rec["store_same_as_after_first_run"] = dg["nodes"] == first_digest
            if not r["se"]:
                continue
            pv = otelgen.read_saved_pv(o)
            rec["saved_jobs"] = sum(len(j) for j in pv.values())
            if not r["ug"]:
                if pv != base_plain:
                    out["violations"].append({
                        "symptom": "pv-sequences-differ-from-first-run",
                        "detail": {"run": i, "history": [flags_str(x) for x in case["runs"][:i + 1]],
                                   "diff": _pv_diff(pv, base_plain)}})
            else:
                if first_ug_pv is None:
                    first_ug_pv = pv
                elif pv != first_ug_pv:
                    # the same store, the same flags: the same selected traces, hence the same
                    # PV sequences, as the first unique-graph run of this history
                    out["violations"].append({
                        "symptom": "ug-pv-sequences-differ-from-first-ug-run-on-this-store",
                        "detail": {"run": i, "history": [flags_str(x) for x in case["runs"][:i + 1]],
                                   "diff": _pv_diff(pv, first_ug_pv)}})
                got, want = _shape_sets(pv, shape_of_job), _shape_sets(base_ug, shape_of_job)
                if got != want:
                    out["violations"].append({
                        "symptom": "selected-shapes-differ-from-first-run",
                        "detail": {"run": i, "history": [flags_str(x) for x in case["runs"][:i + 1]],
                                   "got": got, "first": want}})
                for wf, jobs in pv.items():
                    for jid, evs in jobs.items():
                        if (base_plain or {}).get(wf, {}).get(jid) != evs:
                            out["violations"].append({
                                "symptom": "pv-sequences-differ-from-first-run",
                                "detail": {"run": i, "job": jid, "workflow": wf,
                                           "history": [flags_str(x) for x in case["runs"][:i + 1]]}})
                            break
    finally:
        shutil.rmtree(wd, ignore_errors=True)
    return out


def _pv_diff(a: dict, b: dict) -> dict:
    d: dict[str, Any] = {"workflows_only_run": sorted(set(a) - set(b)),
                         "workflows_only_first": sorted(set(b) - set(a))}
    for wf in sorted(set(a) & set(b)):
        if a[wf] != b[wf]:
            d[wf] = {"jobs_only_run": sorted(set(a[wf]) - set(b[wf]))[:5],
                     "jobs_only_first": sorted(set(b[wf]) - set(a[wf]))[:5],
                     "jobs_changed": sorted(j for j in set(a[wf]) & set(b[wf])
                                            if a[wf][j] != b[wf][j])[:5]}
    return d


# ----------------------------------------------------------------------------- driver side
def histories(tier: str, seed: int) -> tuple[list[list[dict]], dict]:
    flags = [{"ingest": i, "ug": u, "se": s} for i in (True, False) for u in (False, True)
             for s in (False, True)]
    first = [f for f in flags if f["ingest"]]
    rng = random.Random(f"c15-h-{seed}")
    hs: list[list[dict]] = [[f] for f in first]
    hs += [[a, b] for a in first for b in flags]
    stats = {"length1": len(first), "length2": len(first) * len(flags)}
    if tier == "thorough":
        l3 = [[a, b, c] for a in first for b in flags for c in flags]
        l4 = [[a, b, c, d] for a in first for b in flags for c in flags for d in flags]
        hs += l3 + rng.sample(l4, 220)
        stats.update({"length3": len(l3), "length4_sampled": 220, "length4_total": len(l4)})
    return hs, stats


def main(tier: str, seed: int) -> int:
    chk = core.Check(
        PROP, tier, seed,
        rule="histories of separate `python -m tel2puml otel2pv` processes over one SQLite file: "
             "every history of length <=2 (thorough: every length-3 and 220 sampled length-4) "
             "over flags {ingest,-ni} x {-ug} x {-se}, first run always ingesting; each history "
             "on its own seeded dataset (complete, dangling-parent, mixed-name, out-of-window "
             "traces, traces spanning the whole window from buffer zone to buffer zone or reaching "
             "into it from one, repeated shapes, duplicated spans across files), time_buffer in {0,1,2}, "
             "batch_size in {1,2,3,1000}, plus two histories on data sets of > 1000 spans with the "
             "default batch size; the first-run answer for each flag set is taken from "
             "fresh database files. distinct = distinct (history flags, dataset seed)")
    chk.assumptions = [
        "PV sequences compared through the saved pv_event_sequence files (-se); runs without "
        "-se are judged on exit status only (store digest recorded as information)",
        "call-tree shape of a saved job = canonical shape of the generated trace with that id",
    ]
    hs, stats = histories(tier, seed)
    rng = random.Random(f"c15-{seed}")
    wd = core.work_dir()
    cases = []
    for i, h in enumerate(hs):
        cases.append({"runs": h, "rng_seed": f"{seed}-{i}", "time_buffer": (i + 2 * (i // 8) + seed) % 3,   # every flag set meets every buffer
                      "batch_size": rng.choice([1, 2, 3, 1000]), "n_traces": rng.randint(6, 14),
                      "work_dir": wd, "_wall_limit": 1500})
    # two histories on a data set larger than the default batch size (1000 spans per flush)
    for j, h in enumerate([[{"ingest": True, "ug": False, "se": True},
                            {"ingest": True, "ug": True, "se": True}],
                           [{"ingest": True, "ug": True, "se": False},
                            {"ingest": True, "ug": False, "se": True},
                            {"ingest": False, "ug": False, "se": True}]]):
        cases.append({"runs": h, "rng_seed": f"{seed}-big-{j}", "time_buffer": j,
                      "batch_size": (1000, 2000)[j], "dup_rate": (0.0, 0.05)[j],
                      "n_traces": 220 + 30 * j, "work_dir": wd,
                      "_wall_limit": 1500})
    stats["large_data_set_histories"] = 2
    F = lambda i, u, s_: {"ingest": i, "ug": u, "se": s_}   # noqa: E731
    # tiny stores (< 10 rows) with same-shape twins: which twin represents the shape must not
    # change from run to run on one store
    tiny = [[F(True, True, True), F(False, True, True)],
            [F(True, True, True), F(True, True, True), F(False, True, True)],
            [F(True, False, True), F(False, True, True), F(False, True, True)],
            [F(True, True, False), F(False, True, True), F(True, True, True)]]
    for j, h in enumerate(tiny):
        cases.append({"runs": h, "rng_seed": f"{seed}-tiny-{j}", "time_buffer": 0,
                      "batch_size": (1000, 2, 1000, 3)[j], "dataset": "tiny", "n_traces": 0,
                      "work_dir": wd, "_wall_limit": 1500})
    # runs on a store nothing was ingested into yet, and data sets that cleaning empties
    early = [[F(False, True, False), F(True, True, True), F(False, True, True)],
             [F(False, True, True), F(True, False, True), F(True, True, True)],
             [F(False, False, True), F(True, True, True)]]
    for j, h in enumerate(early):
        cases.append({"runs": h, "rng_seed": f"{seed}-early-{j}", "time_buffer": j % 2,
                      "batch_size": rng.choice([1, 2, 3, 1000]), "n_traces": rng.randint(6, 10),
                      "work_dir": wd, "_wall_limit": 1500})
    gone = [[F(True, True, False), F(True, True, True), F(False, True, True)],
            [F(True, True, True), F(False, True, True)],
            [F(True, False, True), F(True, True, True)]]
    for j, h in enumerate(gone):
        cases.append({"runs": h, "rng_seed": f"{seed}-gone-{j}", "time_buffer": 0,
                      "batch_size": (1000, 2, 1)[j], "dataset": "all-cleaned", "n_traces": 0,
                      "work_dir": wd, "_wall_limit": 1500})
    stats.update({"tiny_store_histories": len(tiny), "histories_starting_without_ingest": len(early),
                  "histories_on_data_cleaning_empties": len(gone)})
    chk.extra["workload"] = stats
    results, notes = core.run_workers("checks.c15", "run_history", cases, hashseeds=[0],
                                      chunks_per_proc=4, timeout=6000)
    for n in notes:
        chk.note_inconclusive(n)
    obs = {"histories": 0, "cli_process_runs": 0, "runs_in_histories": 0, "se_runs_compared": 0,
           "ug_se_runs_compared": 0, "reingest_runs": 0, "no_ingest_runs": 0,
           "store_changed_after_first_run": 0, "survivor_jobs": 0, "baseline_failed": 0}
    for r in results:
        c = cases[r["_idx"]]
        if r.get("status") != "ok":
            chk.note_inconclusive(f"history {c['rng_seed']}: {r.get('status')} {r.get('detail')}")
            continue
        if r.get("baseline_failed"):
            obs["baseline_failed"] += 1
            chk.violation("run-fails:first", {"case": {k: c[k] for k in c if k != "work_dir"},
                                              "detail": {"baseline": r["baseline_failed"]}},
                          ["baseline"])
            continue
        obs["histories"] += 1
        obs["cli_process_runs"] += r["cli_runs"]
        obs["survivor_jobs"] += r.get("survivor_jobs", 0)
        obs["max_spans_in_a_data_set"] = max(obs.get("max_spans_in_a_data_set", 0),
                                             r.get("spans", 0))
        chk.case(core.digest([[flags_str(x) for x in c["runs"]], c["rng_seed"]]),
                 len(c["runs"]) > 1)
        for i, rec in enumerate(r["runs"]):
            obs["runs_in_histories"] += 1
            f = c["runs"][i]
            if rec.get("before_first_ingest"):
                obs["runs_before_first_ingest"] = obs.get("runs_before_first_ingest", 0) + 1
                obs["runs_before_first_ingest_exit_0"] = \
                    obs.get("runs_before_first_ingest_exit_0", 0) + (rec["rc"] == 0)
                continue
            if i > 0:
                obs["reingest_runs" if f["ingest"] else "no_ingest_runs"] += 1
                if rec.get("store_same_as_after_first_run") is False:
                    obs["store_changed_after_first_run"] += 1
            if f["se"] and rec["rc"] == 0:
                obs["ug_se_runs_compared" if f["ug"] else "se_runs_compared"] += 1
        for v in r["violations"]:
            tags = [flags_str(x) for x in c["runs"]]
            chk.violation(v["symptom"], {"case": {k: c[k] for k in c if k != "work_dir"},
                                         "detail": v["detail"]}, tags)
        if len(chk.samples) < 3 and len(c["runs"]) >= 2:
            chk.samples.append({"history": [flags_str(x) for x in c["runs"]],
                                "time_buffer": c["time_buffer"], "batch_size": c["batch_size"],
                                "runs": r["runs"], "survivor_jobs": r.get("survivor_jobs")})
    chk.extra["monitor_observations"] = obs
    if obs["se_runs_compared"] == 0 or obs["ug_se_runs_compared"] == 0:
        chk.note_inconclusive("no saved PV sequences were compared")
    if obs["reingest_runs"] == 0 or obs["no_ingest_runs"] == 0:
        chk.note_inconclusive("no later run with / without ingestion")
    return chk.finish()


def replay(path: str) -> int:
    with open(path) as fh:
        data = json.load(fh)
    c = dict(data["case"]["case"], work_dir=core.work_dir())
    res, _ = core.run_workers("checks.c15", "run_history", [c], nproc=1)
    bad = False
    for r in res:
        print(json.dumps(r.get("runs"))[:800])
        if r.get("baseline_failed"):
            print("baseline failed:", r["baseline_failed"])
            bad = True
        for v in r.get("violations", []):
            print(v["symptom"], json.dumps(v["detail"])[:900])
            bad = True
    if bad:
        print(f"VIOLATION property={PROP} replay={path}")
        return 1
    return 0 if res else 2
