"""C12 - every stored trace is streamed once, whole, under one workflow name
(DESIGN.md 3.12)."""
from __future__ import annotations

import json
import os
import random

from vlib import core, store


def _model(stream: list[dict]) -> tuple[dict, dict]:
    model = store.model_first_wins(stream)
    kids: dict[str, set] = {}
    for s in model.values():
        if s["parent_event_id"]:
            kids.setdefault(s["parent_event_id"], set()).add(s["event_id"])
    by: dict[str, dict[str, dict[str, dict]]] = {}
    for s in model.values():
        by.setdefault(s["job_name"], {}).setdefault(s["job_id"], {})[s["event_id"]] = s
    return by, kids


def _want(by: dict, flt: dict | None) -> dict:
    if flt is None:
        return by
    want = {n: {j: by[n][j] for j in ids if j in by.get(n, {})} for n, ids in flt.items()}
    return {n: v for n, v in want.items() if v}


def _check_stream(got: list, want: dict, kids: dict, info: dict) -> tuple[str, dict | None]:
    """One streamed answer against what the store holds under the filter."""
    names = [n for n, _ in got]
    if len(set(names)) != len(names):
        return "violated:workflow-name-yielded-twice", {"names": names}
    seen_jobs: dict[str, str] = {}
    spans_seen = 0
    for name, traces in got:
        for tr in traces:
            if not tr:
                return "violated:empty-trace-group", {"name": name}
            jids = {e["job_id"] for e in tr}
            if len(jids) != 1:
                return "violated:trace-group-mixes-traces", {"name": name, "ids": sorted(jids)}
            jid = next(iter(jids))
            if (name, jid) in seen_jobs:
                return "violated:trace-yielded-twice", {"name": name, "job_id": jid}
            seen_jobs[(name, jid)] = name
            exp = want.get(name, {}).get(jid)
            if exp is None:
                return "violated:trace-under-wrong-name-or-unselected", {
                    "name": name, "job_id": jid}
            ids = [e["event_id"] for e in tr]
            if sorted(ids) != sorted(exp):
                return ("violated:span-dropped" if set(exp) - set(ids) else
                        "violated:span-duplicated-or-foreign"), {
                    "name": name, "job_id": jid, "got": sorted(ids), "want": sorted(exp)}
            for e in tr:
                spans_seen += 1
                w = exp[e["event_id"]]
                for f in store.FIELDS:
                    if e[f] != w[f]:
                        return "violated:field-changed", {"event": e, "field": f, "want": w[f]}
                if sorted(e["child_event_ids"] or []) != sorted(kids.get(e["event_id"], set())):
                    return "violated:child-links-wrong", {
                        "event_id": e["event_id"], "got": sorted(e["child_event_ids"] or []),
                        "want": sorted(kids.get(e["event_id"], set()))}
    missing = [(n, j) for n, js in want.items() for j in js if (n, j) not in seen_jobs]
    if missing:
        return "violated:trace-not-streamed", {"missing": missing[:5]}
    info["traces"] = info.get("traces", 0) + len(seen_jobs)
    info["spans"] = info.get("spans", 0) + spans_seen
    info["names"] = len(names)
    return "held", None


def judge(stream: list[dict], batch_size: int, flt: dict | None) -> tuple[str, dict | None, dict]:
    return judge_many(stream, batch_size, [flt])


def judge_many(stream: list[dict], batch_size: int, filters: list[dict | None]
               ) -> tuple[str, dict | None, dict]:
    """Ingest once, then stream the SAME holder once per filter, in the given order; every
    answer is judged on its own (nothing of an earlier answer may show in a later one)."""
    info: dict = {}
    by, kids = _model(stream)
    holder = None
    try:
        holder = store.new_holder("sqlite:///:memory:", batch_size)
        log = store.StatementLog(holder.engine)
        store.ingest(holder, stream)
        for i, flt in enumerate(filters):
            got = store.stream_all(holder, {k: set(v) for k, v in flt.items()} if flt else None)
            v, d = _check_stream(got, _want(by, flt), kids, info)
            if v != "held":
                if i:
                    v = "violated:stream-" + str(i + 1) + "-on-one-holder:" + v[9:]
                return v, d, info
        info["selects"] = log.counts.get("SELECT NODES", 0)
    except Exception as exc:
        return f"violated:exception:{type(exc).__name__}", {"exc": repr(exc)[:300]}, info
    finally:
        if holder is not None:
            holder.engine.dispose()
    return "held", None, info


def judge_sequenced(stream: list[dict], batch_size: int, flt: dict | None,
                    collect_first: bool = False) -> tuple[str, dict | None, dict]:
    """The same stream consumed by the real sequencer (sequence_otel_job_id_streams), on
    stores that may hold disconnected traces: every connected trace group must come out as
    exactly one PV job holding exactly its spans; a disconnected group is skipped and must
    not affect the groups after it."""
    from tel2puml.otel_to_pv.sequence_otel import sequence_otel_job_id_streams
    info: dict = {}
    model = store.model_first_wins(stream)
    by: dict[str, dict[str, dict[str, dict]]] = {}
    for s in model.values():
        by.setdefault(s["job_name"], {}).setdefault(s["job_id"], {})[s["event_id"]] = s
    if flt is not None:
        want = {n: {j: by[n][j] for j in ids if j in by.get(n, {})} for n, ids in flt.items()}
        want = {n: v for n, v in want.items() if v}
    else:
        want = by

    def connected(group: dict[str, dict]) -> bool:
        roots = [s for s in group.values() if s["parent_event_id"] is None]
        return len(roots) == 1 and all(s["parent_event_id"] in group for s in group.values()
                                       if s["parent_event_id"] is not None)
    expect = {(n, j): set(g) for n, js in want.items() for j, g in js.items() if connected(g)}
    info["disconnected_groups"] = sum(len(js) for js in want.values()) - len(expect)
    info["disconnected_not_last"] = 0
    for n, js in want.items():
        order = sorted(js)
        for i, j in enumerate(order):
            if (n, j) not in expect and any((n, k) in expect for k in order[i + 1:]):
                info["disconnected_not_last"] += 1
    holder = None
    got: dict[tuple[str, str], list[set]] = {}
    try:
        holder = store.new_holder("sqlite:///:memory:", batch_size)
        store.ingest(holder, stream)
        for name, traces in holder.stream_data({k: set(v) for k, v in flt.items()} if flt
                                               else None):
            jobs_iter = sequence_otel_job_id_streams(traces)
            if collect_first:
                # the per-trace generators may be collected first and read afterwards (the
                # materialisation step gives every trace its own event map)
                jobs_iter = list(jobs_iter)
            for job in jobs_iter:
                evs = list(job)
                if not evs:
                    continue
                jid = evs[0]["jobId"]
                got.setdefault((name, jid), []).append({e["eventId"] for e in evs})
    except Exception as exc:
        return f"violated:exception:{type(exc).__name__}", {"exc": repr(exc)[:300]}, info
    finally:
        if holder is not None:
            holder.engine.dispose()
    for k, jobs in got.items():
        if len(jobs) > 1:
            return "violated:trace-sequenced-twice", {"trace": list(k)}, info
        if k not in expect:
            return "violated:disconnected-or-unselected-trace-sequenced", {"trace": list(k)}, info
        if jobs[0] != expect[k]:
            return "violated:sequenced-job-has-other-spans", {
                "trace": list(k), "got": sorted(jobs[0]), "want": sorted(expect[k])}, info
    missing = sorted(set(expect) - set(got))
    if missing:
        return "violated:connected-trace-not-delivered-to-sequencing", {
            "missing": [list(m) for m in missing[:5]]}, info
    info["sequenced_jobs"] = len(got)
    return "held", None, info


def judge_top_up(stream: list[dict], batch_size: int, cut: int, mode: str = "same-holder",
                 db_path: str | None = None) -> tuple[str, dict | None, dict]:
    """One holder: ingest a first part, stream it (consumed completely), ingest a top-up in a
    new `with holder:` block, stream again - the second stream must describe the whole store
    (spans, traces, and the parent/child links the top-up added).
    mode: same-holder | window-clean-between (a window clean-up with time_buffer 0, which
    removes nothing, runs before the top-up - late parents arrive afterwards) | new-holder
    (database file; the top-up and the second stream go through a NEW holder object) |
    new-holder-one-name (as new-holder, the top-up holding spans of ONE workflow name only)."""
    info: dict = {}
    if mode == "new-holder-one-name":
        names = sorted({s["job_name"] for s in stream})
        pick = names[cut % len(names)]
        traces = sorted({s["job_id"] for s in stream if s["job_name"] == pick})
        late = set(traces[: max(1, len(traces) // 2)])
        part2 = [s for s in stream if s["job_name"] == pick and s["job_id"] in late]
        part1 = [s for s in stream if not (s["job_name"] == pick and s["job_id"] in late)]
        stream = part1 + part2
        if not part1:
            return "skip", None, info
    else:
        part1, part2 = stream[:cut], stream[cut:]
    holder = None
    uri = "sqlite:///" + db_path if mode.startswith("new-holder") else "sqlite:///:memory:"
    try:
        holder = store.new_holder(uri, batch_size)
        store.ingest(holder, part1)
        store.stream_all(holder, None)
        if mode == "window-clean-between":
            try:
                holder.remove_jobs_outside_of_time_window()
            except ValueError as exc:
                if "time buffer" not in str(exc).lower():
                    raise
        if mode.startswith("new-holder"):
            holder.engine.dispose()
            holder = store.new_holder(uri, batch_size)
        store.ingest(holder, part2)
        got = store.stream_all(holder, None)
        names_seen = [name for name, _t in got]
        if len(names_seen) != len(set(names_seen)):
            return "violated:top-up:workflow-name-yielded-twice", {
                "names": names_seen[:12], "mode": mode}, info
    except Exception as exc:
        return f"violated:top-up:exception:{type(exc).__name__}", {"exc": repr(exc)[:300]}, info
    finally:
        if holder is not None:
            holder.engine.dispose()
        if db_path and os.path.exists(db_path):
            os.remove(db_path)
    model = store.model_first_wins(stream)
    kids: dict[str, set] = {}
    for s in model.values():
        if s["parent_event_id"]:
            kids.setdefault(s["parent_event_id"], set()).add(s["event_id"])
    seen = set()
    for name, traces in got:
        for tr in traces:
            for e in tr:
                seen.add(e["event_id"])
                if sorted(e["child_event_ids"] or []) != sorted(kids.get(e["event_id"], set())):
                    return "violated:top-up:child-links-wrong", {
                        "event_id": e["event_id"], "got": sorted(e["child_event_ids"] or []),
                        "want": sorted(kids.get(e["event_id"], set()))}, info
    if seen != set(model):
        return "violated:top-up:spans-differ", {"missing": sorted(set(model) - seen)[:5],
                                                "extra": sorted(seen - set(model))[:5]}, info
    info["top_up_links_added"] = sum(1 for s in part2 if s["parent_event_id"])
    return "held", None, info


def gen_case(rng: random.Random) -> tuple[list[dict], int, dict | None, dict]:
    names = rng.sample(["a", "b", "c d", "e", "A", "Orders", "orders"], rng.randint(1, 5))
    st = store.gen_store(rng, rng.randint(1, 12), names, ["A", "B", "C"], 12, hostile=False)
    for t in st["traces"]:
        if rng.random() < 0.25:
            # coarse clock: all spans of the trace (so all siblings) start at the same instant
            t0 = min(sp["start_timestamp"] for sp in t["spans"])
            for sp in t["spans"]:
                sp["end_timestamp"] = max(sp["end_timestamp"], t0)
                sp["start_timestamp"] = t0
    order = rng.choice(["by-trace", "interleaved", "reversed", "shuffled", "shuffled"])
    stream = store.flatten(st, rng, order)
    if rng.random() < 0.3 and stream:      # duplicates must not be streamed twice either
        stream = stream + [dict(rng.choice(stream)) for _ in range(rng.randint(1, 3))]
    b = rng.choice([1, 2, 3, 5, 7, 1000])
    flt = None
    meta_crossed = [0]
    r = rng.random()
    if r < 0.5:
        flt = {}
        by: dict[str, list[str]] = {}
        for t in st["traces"]:
            by.setdefault(t["name"], []).append(t["job_id"])
        for n, ids in by.items():
            k = rng.random()
            if k < 0.6:
                flt[n] = sorted(rng.sample(ids, rng.randint(1, len(ids))))
            elif k < 0.75:
                flt[n] = []               # empty for a name
        if rng.random() < 0.2:
            flt["absent-name"] = ["nope"]
        if rng.random() < 0.35 and len(by) >= 2:
            # crossed / stale entries: ids that exist, but under another workflow name - the
            # pair (name, id) is not in the store, so it must select nothing
            for n in list(flt):
                others = [j for m, ids in by.items() if m != n for j in ids]
                if others and rng.random() < 0.6:
                    flt[n] = sorted(set(flt[n]) | set(rng.sample(others, rng.randint(1, min(2, len(others))))))
                    meta_crossed[0] += 1
        if not any(flt.values()):
            flt = None if rng.random() < 0.5 else flt
    return stream, b, flt, {"order": order, "traces": len(st["traces"]), "names": len(names),
                            "crossed": meta_crossed[0]}


def large_filter_case(rng: random.Random) -> tuple[list[dict], int, dict, dict]:
    """One workflow with several hundred single-span traces and a filter that lists more ids
    under one name than any bound-parameter / IN-list chunking a store might use."""
    n = rng.choice([520, 640, 1010])
    spans = []
    for i in range(n):
        jid = f"big-t{i:04d}"
        spans.append({"job_name": "big wf", "job_id": jid, "event_type": "A",
                      "event_id": jid + ".0", "start_timestamp": 10**15 + i,
                      "end_timestamp": 10**15 + i + 5, "application_name": "app",
                      "parent_event_id": None})
    for i in range(5):
        jid = f"other-t{i}"
        spans.append({"job_name": "other", "job_id": jid, "event_type": "B",
                      "event_id": jid + ".0", "start_timestamp": 10**15 + i,
                      "end_timestamp": 10**15 + i + 5, "application_name": "app",
                      "parent_event_id": None})
    rng.shuffle(spans)
    k = rng.choice([501, 601, n - 1, n])
    ids = sorted(rng.sample([f"big-t{i:04d}" for i in range(n)], min(k, n)))
    flt = {"big wf": ids, "other": ["other-t1"]}
    # a second large selection for the same holder, neither inside nor around the first
    ids2 = sorted(rng.sample([f"big-t{i:04d}" for i in range(n)], min(k, n) - 7))
    return spans, rng.choice([3, 7, 1000]), flt, {"order": "shuffled", "traces": n + 5,
                                                  "names": 2, "large_filter": len(ids),
                                                  "then": [{"big wf": ids2}, None]}


def run_chunk(case: dict) -> dict:
    rng = random.Random(case["rng_seed"])
    counts: dict[str, int] = {}
    fails, samples = [], []
    distinct = set()
    n = 0

    def bump(k: str, v: int = 1) -> None:
        counts[k] = counts.get(k, 0) + v
    for idx in range(case["count"]):
        if idx == 5:
            stream, b, flt, meta = large_filter_case(rng)
            bump("large_filter_cases")
        else:
            stream, b, flt, meta = gen_case(rng)
        # an all-empty filter is falsy for the code under test (streams everything): the
        # statement speaks of "with or without a filter", so such a filter is "without"
        eff = flt if flt and any(flt.values()) else None
        if flt is not None and eff is None:
            bump("all-empty filter treated as no filter")
        # entries with an empty id set select nothing under that name
        follow: list = list(meta.get("then", []))
        if not follow and idx % 5 == 2:
            # the same holder asked again: another selection, then everything
            byn: dict[str, list[str]] = {}
            for sp in stream:
                byn.setdefault(sp["job_name"], []).append(sp["job_id"])
            alt = {nm: sorted(set(rng.sample(js, rng.randint(1, len(js)))))
                   for nm, js in byn.items() if rng.random() < 0.7}
            follow = [alt if any(alt.values()) else None, None]
        if follow:
            bump("holders_streamed_several_times")
            bump("streams_on_a_reused_holder", len(follow))
        v, d, info = judge_many(stream, b, [eff] + follow)
        n += 1
        bump(v.split(":")[0])
        bump("order:" + meta["order"])
        bump("with_filter" if eff else "without_filter")
        if eff and meta.get("crossed"):
            bump("filters_with_ids_listed_under_another_name")
        bump("traces_streamed", info.get("traces", 0))
        bump("spans_streamed", info.get("spans", 0))
        if info.get("spans", 0) > b:
            bump("cases_crossing_a_cursor_batch")
        if meta["traces"] > 1:
            distinct.add(core.digest([[(s["event_id"], s["parent_event_id"], s["job_name"])
                                       for s in stream], b, eff]))
        if v.startswith("violated") and len(fails) < 4:
            fails.append({"symptom": v[9:], "detail": d, "stream": stream, "batch_size": b,
                          "filter": eff, "meta": dict(meta, then=follow)})
        if idx % 4 == 1 and len(stream) >= 3:
            cut = rng.randint(1, len(stream) - 1)
            mode = ["same-holder", "window-clean-between", "new-holder",
                    "new-holder-one-name"][(idx // 4) % 4]
            dbp = os.path.join(case["workdir"], f"c12-topup-{case['_idx']}-{idx}.sqlite") \
                if mode.startswith("new-holder") else None
            v4, d4, info4 = judge_top_up(stream, b, cut, mode, dbp)
            n += 1
            bump("top_up:" + v4.split(":")[0])
            bump("top_up_mode:" + mode)
            bump("top_up_links_added_after_first_stream", info4.get("top_up_links_added", 0))
            if v4.startswith("violated") and len(fails) < 4:
                fails.append({"symptom": v4[9:], "detail": d4, "stream": stream, "batch_size": b,
                              "filter": None, "meta": {"top_up": True, "cut": cut,
                                                       "mode": mode}})
        if idx % 3 == 0:
            # second observation point: the real consumer, on a store that may hold broken
            # traces (state before cleaning)
            names = rng.sample(["a", "b", "c d", "B"], rng.randint(1, 4))
            st2 = store.gen_store(rng, rng.randint(2, 10), names, ["A", "B", "C"], 6,
                                  hostile=True)
            for t2 in st2["traces"]:
                # names consistent inside a trace (state after the renaming step of
                # cleaning): only structural breakage is left in the store
                for sp in t2["spans"]:
                    sp["job_name"] = t2["name"]
            stream2 = store.flatten(st2, rng, rng.choice(["by-trace", "shuffled"]))
            b2 = rng.choice([1, 2, 3, 1000])
            collect = rng.random() < 0.5
            v2, d2, info2 = judge_sequenced(stream2, b2, None, collect)
            bump("sequenced_collect_then_read" if collect else "sequenced_read_in_order")
            n += 1
            bump("sequenced:" + v2.split(":")[0])
            bump("sequenced_jobs", info2.get("sequenced_jobs", 0))
            bump("disconnected_groups_skipped", info2.get("disconnected_groups", 0))
            bump("disconnected_groups_followed_by_connected_ones",
                 info2.get("disconnected_not_last", 0))
            distinct.add(core.digest([[(s["event_id"], s["parent_event_id"], s["job_name"])
                                       for s in stream2], b2, "seq"]))
            if v2.startswith("violated") and len(fails) < 4:
                fails.append({"symptom": v2[9:], "detail": d2, "stream": stream2,
                              "batch_size": b2, "filter": None,
                              "meta": {"sequenced": True, "collect_first": collect}})
        if not samples and meta["traces"] in (3, 4) and eff:
            samples.append({"batch_size": b, "filter": eff, "order": meta["order"],
                            "spans": [[s["job_name"], s["job_id"], s["event_id"],
                                       s["parent_event_id"]] for s in stream[:20]]})
    return {"status": "ok", "n": n, "distinct": len(distinct), "counts": counts, "fails": fails,
            "samples": samples}


def main(tier: str, seed: int) -> int:
    chk = core.Check(
        "C12", tier, seed,
        rule="seeded random stores: 1-4 workflow names, 1-12 traces of 1-12 spans, ingested "
             "trace-wise / interleaved / reversed / shuffled (plus re-delivered duplicate "
             "spans), batch sizes {1,2,3,5,7,1000}; streamed without filter and with "
             "name->trace-id filters (subset per name, empty for a name, absent name, ids listed "
             "under a name they do not belong to; one case per worker with 500-1000 ids under "
             "one name); a quarter of the traces have all spans starting at the same instant; "
             "the "
             "nested generators are consumed the way the sequencer does; every third case also "
             "pipes a store that still holds broken traces (dangling parents, mixed names) "
             "through the real sequence_otel_job_id_streams. distinct non-trivial "
             "= distinct (store, batch, filter) with more than one trace")
    chk.assumptions = ["model: first occurrence per span id, children = spans naming it as parent",
                       "workflow names are consistent inside a trace (state after cleaning)"]
    P = core.NPROC
    n = 2400 if tier == "quick" else 60000
    wd = os.path.join(core.work_dir(), "c12")
    os.makedirs(wd, exist_ok=True)
    cases = [{"rng_seed": f"c12-{seed}-{i}", "count": n // P, "workdir": wd} for i in range(P)]
    results, notes = core.run_workers("checks.c12", "run_chunk", cases, case_wall=5000, timeout=6000)
    for nt in notes:
        chk.note_inconclusive(nt)
    distinct = 0
    for r in results:
        if r.get("status") != "ok":
            chk.note_inconclusive(f"worker: {r.get('status')} {r.get('detail')}")
            continue
        chk.evaluations += r["n"]
        distinct += r["distinct"]
        for k, v in r["counts"].items():
            chk.count(k, v)
        for s in r["samples"]:
            if len(chk.samples) < 3:
                chk.samples.append(s)
        for f in r["fails"]:
            chk.violation(f["symptom"], f, tags=["streaming", "filter" if f["filter"] else "nofilter"])
    chk.distinct = {str(i) for i in range(distinct)}
    if chk.extra.get("cases_crossing_a_cursor_batch", 0) == 0:
        chk.note_inconclusive("no case crossed a cursor batch boundary")
    if chk.extra.get("disconnected_groups_followed_by_connected_ones", 0) == 0:
        chk.note_inconclusive("no disconnected trace was followed by a connected one")
    return chk.finish()


def run_replay(case: dict) -> dict:
    if case.get("meta", {}).get("top_up"):
        mode = case["meta"].get("mode", "same-holder")
        v, d, info = judge_top_up(case["stream"], case["batch_size"], case["meta"]["cut"], mode,
                                  os.path.join(core.work_dir(), "replay-topup.sqlite")
                                  if mode.startswith("new-holder") else None)
        return {"status": "ok", "verdict": v, "detail": d}
    if case.get("meta", {}).get("sequenced"):
        v, d, info = judge_sequenced(case["stream"], case["batch_size"], case["filter"],
                                     case["meta"].get("collect_first", False))
        return {"status": "ok", "verdict": v, "detail": d}
    v, d, info = judge_many(case["stream"], case["batch_size"],
                            [case["filter"]] + list(case.get("meta", {}).get("then", [])))
    return {"status": "ok", "verdict": v, "detail": d}


def replay(path: str) -> int:
    with open(path) as fh:
        c = json.load(fh)["case"]
    results, _ = core.run_workers("checks.c12", "run_replay", [c], nproc=1)
    print(json.dumps(results, indent=1)[:2000])
    bad = any(r.get("verdict", "").startswith("violated") for r in results)
    if bad:
        print(f"VIOLATION property=C12 replay={path}")
    return 1 if bad else (0 if results else 2)
