"""C02 - nothing beyond a complete sample: learned diagram equivalent to the source
(DESIGN.md 3.2)."""
from __future__ import annotations

from vlib import core, lcase, lcheck

ASPECTS = {"run", "parse", "accept", "extra"}
PROP = "C02"


def workload(tier: str, seed: int) -> tuple[list[dict], dict]:
    if tier == "quick":
        want = {"corpus": 1, "core-exh": 110, "core-rand": 70, "edge": 15, "bunched": 60, "loop-families": 1}
        ks, cap = (2,), 1500
    else:
        want = {"corpus": 1, "core-exh": 100000, "core-rand": 1500, "edge": 150, "bunched": 1000, "loop-families": 1}
        ks, cap = (2, 3), 4000
    defs = lcase.definitions(tier, seed + 1000, want)
    cases, stats = lcase.s1_cases(defs, seed, k_list=ks, schedules=2, corpus_schedules=8, check_extra=True,
                                  extra_cap=cap)
    stats["definitions"] = len(defs)
    return cases, stats


def main(tier: str, seed: int) -> int:
    chk = core.Check(
        PROP, tier, seed,
        rule="definitions as C01 (other seed stream); job sets: only complete samples S1 (loops "
             "run once and twice; thorough also three times); for each learned diagram every job "
             "of L_2(diagram) (enumerated, seeded walks above the cap) is tested for membership "
             "in the source, and every input job for membership in the diagram. distinct = "
             "distinct (definition normal form, k); trivial = no fork or loop")
    chk.assumptions = [
        "janus stand-in /verif/shim builds the same event graph from a PV job as the real package",
        "reference frontier semantics (vlib/puml.py); language comparison bounded at 2 loop "
        "iterations on the diagram side",
    ]
    cases, stats = workload(tier, seed)
    chk.extra["workload"] = stats
    hs = [(seed + 100 + i) % 4096 for i in range(8)]
    chk.extra["hashseeds"] = hs
    lcheck.run(chk, cases, ASPECTS, hashseeds=hs)
    if chk.extra.get("extra_jobs_tested", 0) == 0:
        chk.note_inconclusive("no job of any learned diagram was tested against its source")
    return chk.finish()


def replay(path: str) -> int:
    return lcheck.replay_case(PROP, path, ASPECTS)
