"""C10 - ingestion stores each span once whatever the batching or duplication
(DESIGN.md 3.10).  Reference model: dict keeping the first occurrence per span id."""
from __future__ import annotations

import itertools
import json
import os
import random

from vlib import core, store

_CONTRACT = {"installed": False, "evaluations": 0, "failures": []}


class PendingBatchNotEmpty(Exception):
    pass


def _install_contract() -> None:
    """icontract postcondition on the real method (state anchor of C10): after a flush the
    pending batch is empty.  Records instead of raising (a raise would abort what it observes)."""
    if _CONTRACT["installed"]:
        return
    _CONTRACT["installed"] = True
    try:
        import icontract
    except ImportError:
        _CONTRACT["missing"] = True
        return
    from tel2puml.otel_to_pv.data_holders.sql_data_holder.sql_dataholder import SQLDataHolder

    def pending_batch_empty(self) -> bool:  # noqa: ANN001
        _CONTRACT["evaluations"] += 1
        if self.node_models_to_save or self.node_relationships_to_save:
            if len(_CONTRACT["failures"]) < 3:
                _CONTRACT["failures"].append(
                    {"nodes_pending": len(self.node_models_to_save),
                     "links_pending": len(self.node_relationships_to_save)})
        return True
    SQLDataHolder.commit_batched_unique_data_to_database = icontract.ensure(
        pending_batch_empty, error=PendingBatchNotEmpty)(
        SQLDataHolder.commit_batched_unique_data_to_database)


def _rec(eid: str, parent: str | None, typ: str, t: int, job: str | None = None) -> dict:
    return {"job_name": "wf" if job is None else "wf-" + job,
            "job_id": "trace-" + (eid[0] if job is None else job), "event_type": typ,
            "event_id": eid,
            "start_timestamp": 1000 + t, "end_timestamp": 2000 + t, "application_name": "app",
            "parent_event_id": parent}


def _model_remove_inconsistent(model: dict[str, dict]) -> dict[str, dict]:
    broken = {s["job_id"] for s in model.values()
              if s["parent_event_id"] and s["parent_event_id"] not in model}
    return {k: s for k, s in model.items() if s["job_id"] not in broken}


def judge(streams: list[list[dict]], batch_size: int, db_uri: str, same_holder: bool = False
          ) -> tuple[str, dict | None, dict]:
    """Ingest the streams one after the other (one holder per stream = one run; or, with
    same_holder, one long-lived holder that removes the inconsistent traces between the
    deliveries) and compare tables with the model."""
    info = {"integrity_errors": 0}
    model: dict[str, dict] = {}
    holder = None
    try:
        for si, stream in enumerate(streams):
            if holder is None or not same_holder:
                holder = store.new_holder(db_uri, batch_size)
                log = store.StatementLog(holder.engine)
            elif si:
                holder.remove_inconsistent_jobs()
                before = len(model)
                model = _model_remove_inconsistent(model)
                info["removed_between_deliveries"] = before - len(model)
            store.ingest(holder, stream)
            model = store.model_first_wins(stream, model)
            info["integrity_errors"] += log.errors.get("IntegrityError", 0)
            if holder.node_models_to_save or holder.node_relationships_to_save:
                return "violated:pending-batch-not-flushed-at-exit", {
                    "pending": len(holder.node_models_to_save)}, info
        nodes, assoc, nrows = store.dump(holder)
    except Exception as exc:
        return f"violated:exception:{type(exc).__name__}", {"exc": repr(exc)[:300]}, info
    finally:
        if holder is not None:
            holder.engine.dispose()
    if nrows != len(nodes):
        return "violated:span-stored-twice", {"rows": nrows, "distinct": len(nodes)}, info
    d = store.diff_nodes(nodes, model)
    if d:
        sym = "span-lost" if d["missing"] else ("unexpected-span" if d["extra"]
                                                else "not-first-occurrence")
        return "violated:" + sym, d, info
    want = store.model_links(model)
    if assoc != want:
        return ("violated:link-lost" if want - assoc else "violated:unexpected-link"), {
            "missing": sorted(want - assoc)[:6], "extra": sorted(assoc - want)[:6]}, info
    return "held", None, info


def exhaustive_streams(max_len: int):
    """Every sequence over ids {a0, a1, a2} (a0 root, a1 child of a0, a2 child of a1) of
    length <= max_len; repeated occurrences in two flavours: identical / altered payload+parent."""
    ids = ["a0", "a1", "a2"]
    parent = {"a0": None, "a1": "a0", "a2": "a1"}
    for n in range(1, max_len + 1):
        for seq in itertools.product(ids, repeat=n):
            for altered in (False, True):
                if altered and len(set(seq)) == len(seq):
                    continue
                seen: dict[str, int] = {}
                stream = []
                for t, eid in enumerate(seq):
                    k = seen.get(eid, 0)
                    seen[eid] = k + 1
                    if k and altered:
                        stream.append(_rec(eid, "a0" if eid == "a2" else parent[eid],
                                           f"dup{k}", 10 * t))
                    else:
                        stream.append(_rec(eid, parent[eid], "T" + eid, 0))
                yield seq, altered, stream


def random_streams(rng: random.Random) -> tuple[list[list[dict]], int, dict]:
    n_ids = rng.randint(1, 12)
    parents: dict[str, str | None] = {}
    ids = []
    # span ids are opaque strings: a third of the streams use ids that differ only in letter
    # case (hex ids as upper/lower case), or carry blanks, quotes, wildcards
    style = rng.choice(["plain", "plain", "plain", "case-twins", "hostile"])
    for i in range(n_ids):
        eid = f"{chr(97 + i % 3)}{i}"
        if style == "case-twins":
            eid = f"3fa9c{i // 2:x}d2" if i % 2 == 0 else f"3FA9C{i // 2:X}D2"
        elif style == "hostile":
            eid = ["a 0", "a%0", "a_0", "A 0", "a'0", 'a"0', "a,0", "a;0", " a0", "a0 ", "é0",
                   "a*0"][i]
        parents[eid] = None if not ids or rng.random() < 0.15 else rng.choice(ids)
        ids.append(eid)
    runs = 1 if rng.random() < 0.6 else 2
    streams = []
    seen: dict[str, int] = {}
    n_dups = 0
    for run in range(runs):
        ln = rng.randint(1, 40 // runs)
        # time placement of a run: the same period as the first delivery, or a later period
        # that does not overlap it (a later export that re-delivers some earlier span ids)
        epoch = 0 if run == 0 or rng.random() < 0.5 else run * 100_000
        pool = list(ids)
        rng.shuffle(pool)
        stream = []
        for t in range(ln):
            if pool and rng.random() < 0.6:
                eid = pool.pop()
            else:
                eid = rng.choice(ids)
            k = seen.get(eid, 0)
            seen[eid] = k + 1
            if k:
                n_dups += 1
                if rng.random() < 0.5:
                    # a re-sent span id may differ in everything else: payload, parent, and
                    # the trace / workflow it claims to belong to
                    stream.append(_rec(eid, rng.choice([None] + ids), f"dup{k}", epoch + 7 * t,
                                       job=rng.choice([None, None, "other", "x"])))
                    continue
            stream.append(_rec(eid, parents[eid], "T" + eid, epoch))
        streams.append(stream)
    total = sum(len(s) for s in streams)
    b = rng.choice([1, 2, 3, rng.randint(1, total + 1), total, total + 1, 1000])
    return streams, b, {"dups": n_dups, "runs": runs, "id_style": style}


def large_streams(rng: random.Random) -> tuple[list[list[dict]], int, dict]:
    """Streams longer than any internal chunking a store might use (100-400 records), few
    duplicates at seeded positions (also far behind position 100), batch sizes around 100 and
    'larger than stream'."""
    n_ids = rng.randint(100, 330)
    ids, parents = [], {}
    for i in range(n_ids):
        eid = f"{chr(97 + i % 3)}{i}"
        parents[eid] = None if not ids or rng.random() < 0.05 else (
            ids[-1] if rng.random() < 0.6 else rng.choice(ids))
        ids.append(eid)
    stream = [_rec(e, parents[e], "T" + e, 0) for e in ids]
    n_dups = rng.randint(1, 4)
    for k in range(n_dups):
        src = rng.choice(ids)
        pos = rng.randint(1, len(stream))
        if rng.random() < 0.5:
            dup = dict(next(s for s in stream if s["event_id"] == src))
        else:
            dup = _rec(src, rng.choice([None] + ids[:5]), f"dup{k}", 7 * k,
                       job=rng.choice([None, "other"]))
        stream.insert(pos, dup)
    runs = 1 if rng.random() < 0.7 else 2
    if runs == 2:
        cut = rng.randint(1, len(stream) - 1)
        later = rng.random() < 0.5
        second = [dict(r, start_timestamp=r["start_timestamp"] + 100_000,
                       end_timestamp=r["end_timestamp"] + 100_000) if later else r
                  for r in stream[cut:]]
        redelivered = dict(rng.choice(stream[:cut]))
        if later and rng.random() < 0.5:
            redelivered.update(start_timestamp=redelivered["start_timestamp"] + 100_000,
                               end_timestamp=redelivered["end_timestamp"] + 100_000)
        streams = [stream[:cut], second + [redelivered]]
    else:
        streams = [stream]
    total = len(stream)
    b = rng.choice([64, 99, 100, 101, 128, 129, 250, total, total + 5, 1000])
    return streams, b, {"dups": n_dups, "runs": runs, "large": True}


def run_chunk(case: dict) -> dict:
    _install_contract()
    wd = case["workdir"]
    os.makedirs(wd, exist_ok=True)
    counts: dict[str, int] = {}
    fails, samples = [], []
    n = 0
    distinct = set()

    def bump(k: str, v: int = 1) -> None:
        counts[k] = counts.get(k, 0) + v

    def run_one(streams, b, meta, idx):  # noqa: ANN001
        nonlocal n
        file_db = len(streams) > 1 or idx % 5 == 0
        same_holder = len(streams) > 1 and idx % 3 == 0
        if file_db:
            path = os.path.join(wd, f"db-{case['_idx']}-{idx}.sqlite")
            uri = "sqlite:///" + path
        else:
            uri = "sqlite:///:memory:"
        v, d, info = judge(streams, b, uri, same_holder)
        if same_holder:
            bump("same_holder_with_cleaning_between_deliveries")
            bump("spans_removed_between_deliveries", info.get("removed_between_deliveries", 0))
        if file_db and os.path.exists(path):
            os.remove(path)
        n += 1
        bump(v.split(":")[0])
        bump("integrity_error_fallbacks", info["integrity_errors"])
        if info["integrity_errors"]:
            bump("cases_with_fallback")
        bump("file_backed" if file_db else "in_memory")
        if len(streams) > 1:
            bump("two_runs_on_one_file")
        distinct.add(core.digest([[(s["event_id"], s["event_type"], s["parent_event_id"])
                                   for s in st] for st in streams] + [b]))
        if v.startswith("violated") and len(fails) < 4:
            fails.append({"symptom": v[9:], "detail": d, "streams": streams, "batch_size": b,
                          "meta": dict(meta, same_holder=same_holder)})

    if case["kind"] == "exh":
        for idx, (seq, altered, stream) in enumerate(exhaustive_streams(case["max_len"])):
            if idx % case["of"] != case["slice"]:
                continue
            dup_pos = [i for i, e in enumerate(seq) if e in seq[:i]]
            for b in range(1, len(seq) + 2):
                for i in dup_pos:
                    pos = i % b
                    bump("dup_at_batch_" + ("first" if pos == 0 else "last" if pos == b - 1
                                            else "middle"))
                run_one([stream], b, {"seq": list(seq), "altered": altered}, idx)
            if not samples and len(seq) == 4 and dup_pos:
                samples.append({"ids": list(seq), "altered_duplicates": altered,
                                "batch_sizes": list(range(1, len(seq) + 2))})
    else:
        rng = random.Random(case["rng_seed"])
        for idx in range(case["count"]):
            if idx % 12 == 11:
                streams, b, meta = large_streams(rng)
                bump("large_streams")
            else:
                streams, b, meta = random_streams(rng)
            run_one(streams, b, meta, idx)
            if not samples and meta["dups"] >= 2:
                samples.append({"streams": [[(s["event_id"], s["event_type"], s["parent_event_id"])
                                             for s in st] for st in streams], "batch_size": b})
    return {"status": "ok", "n": n, "distinct": len(distinct), "counts": counts, "fails": fails,
            "samples": samples, "contract_evaluations": _CONTRACT["evaluations"],
            "contract_failures": _CONTRACT["failures"],
            "contract_missing": _CONTRACT.get("missing", False), "kind": case["kind"]}


def main(tier: str, seed: int) -> int:
    chk = core.Check(
        "C10", tier, seed,
        rule="(a) exhaustive: every stream of <=5 (thorough 6) records over 3 span ids (chain "
             "a0<-a1<-a2) with every duplicate placement, duplicates identical or with altered "
             "payload/parent, x every batch size 1..n+1; (b) seeded random streams of <=40 "
             "records over <=12 ids with altered duplicates, one or two runs on one database "
             "file (every third two-run case on ONE long-lived holder that removes the "
             "inconsistent traces between the deliveries), batch sizes "
             "{1,2,3,random,n,n+1,1000}; a re-sent id may differ in payload, "
             "parent and trace/workflow; every 12th random case is a long stream (100-330 ids, "
             "1-4 duplicates anywhere) with batch sizes {64,99,100,101,128,129,250,n,n+5,1000}. "
             "distinct = distinct (stream(s), "
             "batch size); trivial = none (every case is compared row by row)")
    chk.assumptions = ["model: first occurrence per span id wins, link = that occurrence's parent",
                       "tables read back with plain SQL, independent of the ORM session"]
    P = core.NPROC
    max_len = 5 if tier == "quick" else 6
    n_rand = 3000 if tier == "quick" else 60000
    wd = os.path.join(core.work_dir(), "c10")
    cases = [{"kind": "exh", "max_len": max_len, "slice": i, "of": P, "workdir": wd}
             for i in range(P)]
    cases += [{"kind": "rand", "rng_seed": f"c10-{seed}-{i}", "count": n_rand // P,
               "workdir": wd} for i in range(P)]
    results, notes = core.run_workers("checks.c10", "run_chunk", cases, chunks_per_proc=2, case_wall=5000, timeout=6000)
    for n in notes:
        chk.note_inconclusive(n)
    distinct = 0
    ce = 0
    for r in results:
        if r.get("status") != "ok":
            chk.note_inconclusive(f"worker: {r.get('status')} {r.get('detail')}")
            continue
        chk.evaluations += r["n"]
        distinct += r["distinct"]
        ce += r["contract_evaluations"]
        for k, v in r["counts"].items():
            chk.count(k, v)
        for s in r["samples"]:
            if len(chk.samples) < 4:
                chk.samples.append(s)
        for f in r["fails"]:
            chk.violation(f["symptom"], f, tags=["ingest"])
        for cf in r["contract_failures"]:
            chk.violation("pending-batch-not-empty-after-flush", cf, tags=["ingest", "contract"])
        if r["contract_missing"]:
            chk.extra["icontract"] = "not installed - state-anchor contract not evaluated"
    chk.distinct = {str(i) for i in range(distinct)}
    chk.extra["contract_evaluations"] = ce
    chk.extra["exhaustive_subspace"] = f"streams <= {max_len} records over 3 ids x all batch sizes"
    if chk.extra.get("integrity_error_fallbacks", 0) == 0:
        chk.note_inconclusive("the IntegrityError recovery path was never taken")
    return chk.finish()


def run_replay(case: dict) -> dict:
    wd = case["workdir"]
    os.makedirs(wd, exist_ok=True)
    path = os.path.join(wd, "replay.sqlite")
    if os.path.exists(path):
        os.remove(path)
    v, d, info = judge(case["streams"], case["batch_size"], "sqlite:///" + path,
                       case.get("meta", {}).get("same_holder", False))
    if os.path.exists(path):
        os.remove(path)
    return {"status": "ok", "verdict": v, "detail": d}


def replay(path: str) -> int:
    with open(path) as fh:
        data = json.load(fh)
    c = data["case"]
    results, _ = core.run_workers("checks.c10", "run_replay", [
        {"streams": c["streams"], "batch_size": c["batch_size"],
         "workdir": os.path.join(core.work_dir(), "c10r")}], nproc=1)
    print(json.dumps(results, indent=1)[:2000])
    bad = any(r.get("verdict", "").startswith("violated") for r in results)
    if bad:
        print(f"VIOLATION property=C10 replay={path}")
    return 1 if bad else (0 if results else 2)
