"""C16 - PV timestamp <-> Unix-nanosecond conversion (DESIGN.md 3.16).

Oracle: integer arithmetic only.  Workload: boundary instants exhaustively + seeded samples
over 1970..2100, split over worker processes."""
from __future__ import annotations

import json
import random
from datetime import datetime, timedelta, timezone

from vlib import core

EPOCH = datetime(1970, 1, 1, tzinfo=timezone.utc)
MAX_US = int((datetime(2100, 1, 1, tzinfo=timezone.utc) - EPOCH).total_seconds()) * 10**6


def exact_string(us: int) -> str:
    dt = EPOCH + timedelta(microseconds=us)
    return "%04d-%02d-%02dT%02d:%02d:%02d.%06dZ" % (
        dt.year, dt.month, dt.day, dt.hour, dt.minute, dt.second, dt.microsecond)


def boundary_us() -> list[int]:
    secs = {0, 1, 59, 60, 3599, 3600, 86399, 86400}
    for y, m, d in [(1970, 1, 1), (1970, 1, 2), (1972, 2, 29), (1972, 3, 1), (1999, 12, 31),
                    (2000, 1, 1), (2000, 2, 29), (2001, 9, 9), (2016, 12, 31), (2017, 1, 1),
                    (2024, 1, 1), (2024, 2, 29), (2024, 12, 31), (2038, 1, 19), (2038, 1, 20),
                    (2040, 2, 29), (2099, 12, 31), (2100, 1, 1)]:
        base = int((datetime(y, m, d, tzinfo=timezone.utc) - EPOCH).total_seconds())
        for off in (-1, 0, 1, 3 * 3600 + 14 * 60 + 7, 86399):
            if base + off >= 0:
                secs.add(base + off)
    secs.add(2**31 - 1)
    secs.add(2**31)
    secs.add(2**32)
    fracs = [0, 1, 2, 9, 10, 499_999, 500_000, 500_001, 999_998, 999_999, 123_456, 59_959,
             100_000, 900_000, 5, 50, 500, 5000, 50_000]
    out = sorted({s * 10**6 + f for s in secs for f in fracs if s * 10**6 + f <= MAX_US})
    return out


# ---------------------------------------------------------------------------- worker side
def run_chunk(case: dict) -> dict:
    from tel2puml.utils import unix_nano_to_pv_string
    from tel2puml.pv_to_tel import convert_timestamp_to_unix_nano

    # the conversions are defined on UTC ("Z") strings: the time zone of the process must not
    # matter - every chunk runs under its own POSIX TZ rule (no tz database needed)
    import os
    import time
    os.environ["TZ"] = case.get("tz", "UTC0")
    time.tzset()
    rng = random.Random(case["rng_seed"])
    values = list(case.get("us_values", []))
    values += [rng.randrange(0, MAX_US + 1) for _ in range(case["n_random"])]
    fails: list[dict] = []
    counts = {"us_forward": 0, "us_backward": 0, "roundtrip": 0, "ns_within": 0,
              "ns_order": 0, "distinct_fraction_digits": 0}
    fr_seen = set()

    def fail(kind: str, **kw) -> None:
        if len(fails) < 10:
            fails.append(dict(kind=kind, tz=case.get("tz", "UTC0"), **kw))
        counts["fail_" + kind] = counts.get("fail_" + kind, 0) + 1

    for us in values:
        want = exact_string(us)
        fr_seen.add(us % 10**6)
        # ns -> string on exact microsecond instants
        try:
            got = unix_nano_to_pv_string(us * 1000)
        except Exception as exc:
            fail("forward-exception", us=us, exc=repr(exc))
            continue
        counts["us_forward"] += 1
        if got != want:
            fail("forward", ns=us * 1000, got=got, want=want)
        # string -> ns
        try:
            back = convert_timestamp_to_unix_nano(want)
        except Exception as exc:
            fail("backward-exception", s=want, exc=repr(exc))
            continue
        counts["us_backward"] += 1
        if back != us * 1000:
            fail("backward", s=want, got=back, want=us * 1000)
        # PV -> OTel -> PV
        try:
            rt = unix_nano_to_pv_string(convert_timestamp_to_unix_nano(want))
            counts["roundtrip"] += 1
            if rt != want:
                fail("roundtrip", s=want, got=rt)
        except Exception as exc:
            fail("roundtrip-exception", s=want, exc=repr(exc))
        # arbitrary nanoseconds inside this microsecond: within 1 us, order preserved
        ns_list = sorted({us * 1000 + d for d in (1, 499, 500, 501, 999, rng.randrange(1000))})
        prev_s = got
        for ns in ns_list:
            s = unix_nano_to_pv_string(ns)
            counts["ns_within"] += 1
            if s not in (want, exact_string(us + 1)):
                fail("ns-more-than-1us-away", ns=ns, got=s, floor=want)
            counts["ns_order"] += 1
            if s < prev_s:
                fail("ns-order-inverted", ns=ns, got=s, previous=prev_s)
            prev_s = s
    # order on a sorted sweep of the microsecond values
    prev = None
    for us in sorted(set(values)):
        s = unix_nano_to_pv_string(us * 1000)
        if prev is not None and not (prev[1] < s):
            fail("order", a=prev[0], b=us, sa=prev[1], sb=s)
        prev = (us, s)
    counts["distinct_fraction_digits"] = len(fr_seen)
    return {"status": "ok", "tz": case.get("tz", "UTC0"), "n": len(values),
            "distinct": len(set(values)), "fails": fails,
            "counts": counts, "sample": [[v, exact_string(v)] for v in values[:2]]}


# ---------------------------------------------------------------------------- driver side
def build_cases(tier: str, seed: int) -> list[dict]:
    n_random = 40_000 if tier == "quick" else 1_000_000
    nchunks = core.NPROC
    b = boundary_us()
    cases = []
    for i in range(nchunks):
        cases.append({"rng_seed": f"c16-{seed}-{i}", "n_random": n_random // nchunks,
                      "us_values": b[i::nchunks],
                      "tz": ["UTC0", "IST-5:30", "EST5EDT,M3.2.0,M11.1.0",
                             "CET-1CEST,M3.5.0,M10.5.0/3", "NZST-12NZDT,M9.5.0,M4.1.0/3",
                             "UTC0"][i % 6]})
    return cases


def main(tier: str, seed: int) -> int:
    chk = core.Check(
        "C16", tier, seed,
        rule="instants at microsecond precision 1970..2100: hand-listed boundary seconds x "
             "fraction values (exhaustive list) + seeded uniform samples; each also probed at "
             "6 nanosecond offsets inside the microsecond; distinct = distinct microsecond "
             "values, all non-trivial (every one is compared with integer arithmetic)")
    chk.assumptions = ["oracle = python integer arithmetic on datetime/timedelta",
                       "for non-microsecond inputs floor or round are both accepted",
                       "chunks run under different process time zones (TZ + tzset): the "
                       "conversions are defined on UTC strings and must not depend on it"]
    results, notes = core.run_workers("checks.c16", "run_chunk", build_cases(tier, seed), case_wall=5000, timeout=6000)
    for n in notes:
        chk.note_inconclusive(n)
    distinct = 0
    tzs: set = set()
    for r in results:
        if r.get("status") != "ok":
            chk.note_inconclusive(f"worker: {r.get('status')} {r.get('detail')}")
            continue
        chk.evaluations += r["n"]
        distinct += r["distinct"]
        for k, v in r["counts"].items():
            chk.count(k, v)
        for s in r["sample"]:
            if len(chk.samples) < 8:
                chk.samples.append({"unix_us": s[0], "pv_string": s[1]})
        tzs.add(r.get("tz"))
        for f in r["fails"]:
            chk.violation(f["kind"], f, tags=["timestamp"])
    chk.distinct = {str(i) for i in range(distinct)}  # chunks draw disjoint streams
    chk.extra["boundary_values"] = len(boundary_us())
    chk.extra["process_time_zones"] = sorted(t for t in tzs if t)
    return chk.finish()


def replay(path: str) -> int:
    with open(path) as fh:
        data = json.load(fh)
    case = data["case"]
    us = None
    if "ns" in case:
        us = case["ns"] // 1000
    elif "want" in case and isinstance(case["want"], int):
        us = case["want"] // 1000
    elif "us" in case:
        us = case["us"]
    if us is None:
        print("cannot derive the instant from", case)
        return 2
    results, notes = core.run_workers(
        "checks.c16", "run_chunk", [{"rng_seed": "replay", "n_random": 0, "us_values": [us],
                                     "tz": case.get("tz", "UTC0")}],
        nproc=1)
    print(json.dumps(results, indent=1))
    bad = any(r.get("fails") for r in results)
    if bad:
        print(f"VIOLATION property=C16 replay={path}")
    return 1 if bad else 0
